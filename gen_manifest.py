#!/usr/bin/env python3
"""Regenerates MANIFEST.json from the table below (developer tool; not used by checks)."""
import json
CLAIMED = {
 "C01": ("TREE over every two-level composition: chain vs stand-alone decomposition, bit-exact, with Probe leaves counting deliveries; statically typed chains and singles in lockstep with their type-erased twins", "2.C01"),
 "C02": ("TREE at exact rational scalar + CLOSURE (BFS with state dedup) at f64 vs batch definition; exhaustive phase-history drivers; long-run / wide / huge-window drivers judged at counter-boundary steps", "2.C02"),
 "C05": ("TREE at exact rational scalar + f64 CLOSURE vs batch gains/losses definition; lockstep negation pairs; long-run / wide-window drivers judged at counter-boundary steps", "2.C05"),
 "C06": ("TREE at Q and f64 vs Pearson/Kendall/CoG definitions; lockstep negation/relabelling pairs; spike-prefix and long-run / wide-window drivers", "2.C06"),
 "C03": ("TREE x TREE at exact rational scalar (prefix.suffix vs fresh instance on the suffix) + f64 CLOSURE single-valuedness of last-K-inputs -> output; spike-prefix, phase-history and long-run / wide / huge-window drivers vs a fresh instance", "2.C03"),
 "C04": ("TREE at exact rational scalar with lockstep affine images and perturbed twins; constant streams; long-run / wide / huge-window drivers vs the definition; unit-weight identity on mixed units", "2.C04"),
 "C14": ("TREE with lockstep stand-alone children, bit-exact pointwise oracle; statically typed combinator trees inside other views, every Z5 sequence by replay", "2.C14"),
 "C15": ("TREE over update letters with last() at every state, cyclic/constant extensions for long windows, all two-level chains; run under two build profiles (release; debug assertions + overflow checks)", "2.C15"),
 "C16": ("exhaustive cycle drivers extended to 10^4..10^6 steps: f64/f32 run vs the exact periodic output of the same generic code at the rational scalar; every volatile prefix x flat tails vs the exact flat-window answer", "2.C16"),
 "C17": ("TREE + CLOSURE: at every node last() purity, clone-at-birth equality, clone independence, clone/original agreement per continuation letter, fresh-twin replay; state identity = derived Debug; the TREE also at the coarse 10-bit-significand scalar; clone_from over 35 statically typed views", "2.C17"),
 "C18": ("exhaustive cycle drivers: scalar-slot count of the real structs' Debug rendering + counting global allocator at L and 4L", "2.C18"),
 "C07": ("CLOSURE over Z3 + exhaustive adversarial drivers (every volatile prefix x flat/ramp/step/linear tails) with the documented bound checked at every step (8 ulps slack); lockstep Min/Max/Sma/Alma product; long-run / wide-window drivers", "2.C07"),
 "C08": ("TREE + CLOSURE + long runs with a readiness automaton keyed on values delivered by the stand-alone inner view; never-delivering leaf; finiteness and never-reverts at every node; long runs also at the coarse 10-bit-significand scalar", "2.C08"),
 "C09": ("exhaustive driver set (every short prefix x periodic tails) extended to a horizon derived from the documented poles; finiteness, sup-stops-growing and a geometric envelope on the difference of two streams with a common tail; quiet-stretch, spike, tiny-unit and constant tail drivers; every ternary prefix x zero tail at a coarse 10-bit-significand scalar (exact ties between consecutive outputs become reachable) and x constant tails at f32", "2.C09"),
 "C10": ("TREE whose letters are pairs (x,y) at the exact rational scalar: seven real instances in lockstep, exact superposition; exhaustive letter cycles; constant streams; long-run / wide / huge-window stream pairs judged at every step", "2.C10"),
 "C12": ("TREE with lockstep instances on a*x+b / -x: exact at Q, bit-exact at f64 for power-of-two scales (2^-70..2^70; 2^+-600 for product-free views) and +-2^52 offsets; long-run / wide-window drivers", "2.C12"),
 "C13": ("TREE at Q and f64 + CLOSURE + exhaustive cycle drivers extended to 10^5/10^6 steps vs batch definitions with exact integer sums; f32 streams past 2^24 values with exactly representable partial sums; tick-sized moves judged on the scale of the move", "2.C13"),
 "C11": ("TREE at f64/Q + exhaustive cycle drivers vs from-scratch batch evaluation of the difference equations; long-run / wide-window and quiet-stretch drivers judged at boundary steps; every Z3 word behind a delayed inner view (Sma(3), Ema(2))", "2.C11"),
}
ALL = ["C%02d" % i for i in range(1, 19)]
checks = []
for pid in ALL:
    if pid not in CLAIMED: continue
    tech, ref = CLAIMED[pid]
    checks.append({
        "property_id": pid,
        "quick_cmd": "./check.sh %s quick" % pid,
        "thorough_cmd": "./check.sh %s thorough" % pid,
        "evidence_file": "/verif/evidence/%s.json" % pid,
        "replay_cmd_template": "engine/target/checked/sfmc replay {path}",
        "engine": "sfmc",
        "level_claimed": {
            "category": "model_checking",
            "text": "Bounded exhaustive explicit-state exploration of the real implementation: every operation sequence over the stated finite alphabets up to the stated depth (and, where the reachable state space closes under deduplication, of every length), every configuration in the stated ranges, each step compared with an independent reference model or relational oracle. Coverage (states, transitions, traces, closed/capped) is written to the evidence file by the run itself.",
            "design_ref": "DESIGN.md section " + ref,
        },
        "level_note": "Trusted: the engine's reference models and tolerances (DESIGN 1.5, 2), rustc, the exact rational scalar Q (num-bigint/num-rational) for the real-arithmetic clauses. Bounds: alphabets, depth, N range as recorded in the evidence file; values outside the alphabets and lengths beyond a capped closure are not covered.",
        "technique": tech,
    })
na = [{"property_id": p, "reason": "not claimed"} for p in ALL if p not in CLAIMED]
m = {
 "version": 1,
 "setup_cmd": "cd engine && CARGO_NET_OFFLINE=true cargo build --offline --profile checked && CARGO_NET_OFFLINE=true cargo build --offline --release",
 "hooks": {
   "guard": "sliding_features_verif",
   "enable": "none needed: the engine links /repo as a path dependency and observes only the public API, derived Debug/Clone, panics and the allocator; no source hook was added, so the guard is unused",
   "baseline_off_cmd": "cd /repo && cargo test --workspace --no-fail-fast --offline",
   "source_commits": [],
   "add_only": True,
 },
 "engines": [{"name": "sfmc", "path": "engine", "serves_properties": sorted(CLAIMED), "kind_free_text": "hand-rolled explicit-state explorer (TREE / CLOSURE / LONG / SWEEP) over the real Rust structs, instantiated at f64, f32, an exact rational scalar and a coarse 10-bit-significand float"}],
 "checks": checks,
 "not_applicable": na,
 "notes": "Exit codes: 0 held, 1 violation (VIOLATION line with replay path), 2 machinery error. Known findings: known_findings.json.",
}
json.dump(m, open("/verif/MANIFEST.json", "w"), indent=1)
print("claimed", len(checks), "na", len(na))
