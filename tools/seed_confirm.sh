#!/bin/bash
# usage: seed_confirm.sh <scratch-worktree> <seed-subdir e.g. seed/a> <id e.g. C04a>
# Confirms a seeded change independently: (i) clean tree + demo passes, (ii) patched tree passes the
# 43 existing tests, (iii) patched tree + demo fails. On success copies it to /verif/seeded/<id>/.
WT="$1"; SD="$WT/$2"; ID="$3"
cd "$WT" || exit 2
git checkout -q -- src img 2>/dev/null; git clean -fdq src; rm -rf tests
[ -z "$(git status --short -- src)" ] || { echo "worktree not clean"; exit 2; }
mkdir -p tests && cp "$SD/demo.rs" tests/demo.rs
cargo test --offline --test demo >/tmp/seed_confirm.$ID.log 2>&1; R1=$?
git apply "$SD/patch.diff" || { echo "patch does not apply"; rm -rf tests; exit 2; }
mv tests/demo.rs /tmp/demo.$ID.rs; rmdir tests
SUITE=$(cargo test --workspace --no-fail-fast --offline 2>&1 | grep -E '^test result' | head -1)
mkdir -p tests && mv /tmp/demo.$ID.rs tests/demo.rs
cargo test --offline --test demo >>/tmp/seed_confirm.$ID.log 2>&1; R3=$?
git checkout -q -- src img; git clean -fdq src; rm -rf tests
echo "$ID: clean+demo exit=$R1 (want 0); patched suite: $SUITE; patched+demo exit=$R3 (want !=0)"
if [ $R1 -eq 0 ] && echo "$SUITE" | grep -q '43 passed; 0 failed' && [ $R3 -ne 0 ]; then
  mkdir -p /verif/seeded/$ID && cp "$SD/patch.diff" "$SD/demo.rs" "$SD/meta.json" /verif/seeded/$ID/
  echo "$ID CONFIRMED"
else
  echo "$ID REJECTED"; exit 1
fi
