#!/bin/bash
# usage: seed_round.sh <letter> <evaldir> <dir[:id]>...
# Confirms /tmp/seed/<dir>/seed/<letter> as /verif/seeded/<id> (default id: <dir><letter>) and triages it
# against every quick check in the scratch copy <evaldir> (tools/seed_confirm.sh + tools/seed_eval.sh).
L="$1"; E="$2"; shift 2
for A in "$@"; do
  D="${A%%:*}"; ID="${A#*:}"; [ "$ID" = "$A" ] && ID="${D}${L}"
  if /verif/tools/seed_confirm.sh /tmp/seed/$D seed/$L $ID 2>&1 | tail -1 | grep -q CONFIRMED; then
    EVALDIR=$E /verif/tools/seed_eval.sh $ID 2>&1 | tail -1
  else
    echo "$ID: REJECTED by seed_confirm"
  fi
done
