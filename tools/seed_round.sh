#!/bin/bash
# usage: seed_round.sh <letter> <evaldir> <property ids...>
# Confirms /tmp/seed/<ID>/seed/<letter> as /verif/seeded/<ID><letter> and triages it against every quick
# check in the scratch copy <evaldir> (tools/seed_confirm.sh + tools/seed_eval.sh).
L="$1"; E="$2"; shift 2
for P in "$@"; do
  if /verif/tools/seed_confirm.sh /tmp/seed/$P seed/$L ${P}${L} 2>&1 | tail -1 | grep -q CONFIRMED; then
    EVALDIR=$E /verif/tools/seed_eval.sh ${P}${L} 2>&1 | tail -1
  else
    echo "${P}${L}: REJECTED by seed_confirm"
  fi
done
