#!/usr/bin/env python3
"""Mechanical mutation sweep: how many small, compiling, test-passing edits of /repo do the quick checks kill?

This is an *evaluation of the machinery*, not part of any check: nothing here is registered in
MANIFEST.json. It never touches /repo; every mutant is applied to a scratch worktree of /repo's HEAD
under WORK (default /tmp/mut/w<k>) and judged by a scratch copy of /verif whose engine points at that
worktree (the same arrangement as tools/seed_eval.sh).

  mutation_sweep.py plan  [--per-file 8] [--seed 1]      -> /verif/mutation/plan.json
  mutation_sweep.py run   --worker K --of W              -> /verif/mutation/results/<id>.json
  mutation_sweep.py table                                 -> /verif/mutation/RESULTS.md

A mutant is (file, line, operator, occurrence). Pipeline per mutant: apply; `cargo test` in the scratch
worktree (does not compile -> stillborn; a test fails -> killed by the existing suite); otherwise run the
quick checks, the ones whose property is anchored in the mutated file first, stopping at the first
exit 1 (unless --all). Exit 2 of a check (machinery error, e.g. the engine no longer builds) is recorded
as such and never counted as a kill.
"""
import argparse, json, os, random, re, subprocess, sys, time, glob, shutil

REPO = '/repo'
VERIF = '/verif'
OUT = VERIF + '/mutation'

OPS = [
    ('rel', [(' < ', ' <= '), (' <= ', ' < '), (' > ', ' >= '), (' >= ', ' > '), (' == ', ' != '), (' != ', ' == ')]),
    ('arith', [(' + ', ' - '), (' - ', ' + '), (' * ', ' / '), (' / ', ' * ')]),
    ('const', [('T::one()', 'T::zero()'), ('T::zero()', 'T::one()')]),
    ('deque', [('pop_front', 'pop_back'), ('push_back', 'push_front'), ('.front()', '.back()'), ('.back()', '.front()')]),
    ('minmax', [('.min(', '.max('), ('.max(', '.min(')]),
    ('offby', [('window_len', '(window_len + 1)'), ('window_len', '(window_len - 1)'), ('.len()', '.len().saturating_sub(1)')]),
    ('bool', [(' && ', ' || '), (' || ', ' && ')]),
]
SKIP_LINE = re.compile(r'^\s*(//|#\[|use |pub use |mod |pub mod |impl|pub struct|struct |where|pub fn|fn |\}|\{|pub\(crate\)|T: |V: |A: |B: |M: )')
SKIP_ANY = re.compile(r'assert|expect\(|-> |plot|println|#\[')


def code_region(lines):
    end = len(lines)
    for i, l in enumerate(lines):
        if '#[cfg(test)]' in l:
            end = i
            break
    return end


def gen_mutants():
    files = sorted(glob.glob(REPO + '/src/pure_functions/*.rs') + glob.glob(REPO + '/src/rolling/*.rs') + glob.glob(REPO + '/src/sliding_windows/*.rs'))
    files = [f for f in files if not f.endswith('/mod.rs')]
    out = []
    for f in files:
        lines = open(f).read().split('\n')
        end = code_region(lines)
        rel = os.path.relpath(f, REPO)
        for i in range(end):
            l = lines[i]
            if SKIP_LINE.match(l) or SKIP_ANY.search(l):
                continue
            for cls, pairs in OPS:
                for a, b in pairs:
                    start = 0
                    occ = 0
                    while True:
                        j = l.find(a, start)
                        if j < 0:
                            break
                        if cls == 'offby' and a == 'window_len' and (l[j - 1:j].isalnum() or l[j - 1:j] == '_' or l[j + len(a):j + len(a) + 1].isalnum() or l[j + len(a):j + len(a) + 1] in ('_', ':')):
                            start = j + len(a)
                            occ += 1
                            continue
                        out.append({'file': rel, 'line': i + 1, 'class': cls, 'from': a, 'to': b, 'col': j, 'text': l.strip()})
                        start = j + len(a)
                        occ += 1
            # statement deletion: a one-line statement on self.<field> (assignment or method call)
            if re.match(r'^\s*self\.[a-z_0-9\.]+(\s*=[^=].*|\.[a-z_]+\(.*\));\s*$', l):
                out.append({'file': rel, 'line': i + 1, 'class': 'delete', 'from': l.strip(), 'to': '', 'col': 0, 'text': l.strip()})
    for k, m in enumerate(out):
        m['id'] = 'M%04d' % k
    return out


def plan(args):
    rnd = random.Random(args.seed)
    allm = gen_mutants()
    byfile = {}
    for m in allm:
        byfile.setdefault(m['file'], []).append(m)
    chosen = []
    for f, ms in sorted(byfile.items()):
        # stratify by class inside the file
        rnd.shuffle(ms)
        seen_cls = {}
        ms.sort(key=lambda m: seen_cls.setdefault(m['class'], len(seen_cls)))
        bycls = {}
        for m in ms:
            bycls.setdefault(m['class'], []).append(m)
        pick = []
        while len(pick) < args.per_file and any(bycls.values()):
            for c in list(bycls):
                if bycls[c] and len(pick) < args.per_file:
                    pick.append(bycls[c].pop())
        chosen.extend(pick)
    os.makedirs(OUT, exist_ok=True)
    if args.extend and os.path.exists(OUT + '/plan.json'):
        # a further sample with another seed: keep what was chosen before, add new picks only
        old = json.load(open(OUT + '/plan.json'))
        have = {m['id'] for m in old['mutants']}
        chosen = old['mutants'] + [m for m in chosen if m['id'] not in have]
        args.seed = '%s+%s' % (old['seed'], args.seed)
        args.per_file = '%s+%s' % (old['per_file'], args.per_file)
    head = subprocess.check_output(['git', '-C', REPO, 'rev-parse', 'HEAD'], text=True).strip()
    json.dump({'repo_head': head, 'total_generated': len(allm), 'per_file': args.per_file, 'seed': args.seed, 'mutants': chosen}, open(OUT + '/plan.json', 'w'), indent=1)
    print('generated', len(allm), 'chosen', len(chosen), 'files', len(byfile))


def anchors():
    m = {}
    for l in open(VERIF + '/properties.jsonl'):
        p = json.loads(l)
        for f in p.get('anchors', {}).get('files', []):
            m.setdefault(f, []).append(p['id'])
    return m


def sh(cmd, cwd=None, timeout=None, env=None):
    try:
        r = subprocess.run(cmd, shell=True, cwd=cwd, stdout=subprocess.PIPE, stderr=subprocess.STDOUT, text=True, timeout=timeout, env=env)
        return r.returncode, r.stdout
    except subprocess.TimeoutExpired as e:
        return 124, (e.stdout or '') if isinstance(e.stdout, str) else ''


def apply_mutant(root, m):
    p = os.path.join(root, m['file'])
    lines = open(p).read().split('\n')
    l = lines[m['line'] - 1]
    assert l.strip() == m['text'], (l, m)
    if m['class'] == 'delete':
        lines[m['line'] - 1] = ''
    else:
        j = m['col']
        assert l[j:j + len(m['from'])] == m['from']
        lines[m['line'] - 1] = l[:j] + m['to'] + l[j + len(m['from']):]
    open(p, 'w').write('\n'.join(lines))


def run(args):
    pl = json.load(open(OUT + '/plan.json'))
    work = '%s/w%d' % (args.work, args.worker)
    os.makedirs(work + '/out', exist_ok=True)
    os.makedirs(OUT + '/results', exist_ok=True)
    head = pl['repo_head']
    repo = work + '/repo'
    if not os.path.isdir(repo):
        sh('git -C %s worktree add -q --detach %s %s' % (REPO, repo, head))
        sh('cp -r %s/target %s/target' % (REPO, repo))
    sh('git -C %s checkout -q -- . && git -C %s clean -fdq src' % (repo, repo))
    sh("rsync -a --delete --exclude target --exclude .git --exclude replays --exclude evidence --exclude mutation --exclude seeded %s/ %s/verif/" % (VERIF, work))
    sh("sed -i 's#path = \"/repo\"#path = \"%s\"#' %s/verif/engine/Cargo.toml" % (repo, work))
    anc = anchors()
    checks = [c['property_id'] for c in json.load(open(VERIF + '/MANIFEST.json'))['checks']]
    env = dict(os.environ, VERIF_ROOT=work + '/verif', CARGO_NET_OFFLINE='true')
    mine = [m for k, m in enumerate(pl['mutants']) if k % args.of == args.worker]
    for m in mine:
        res_path = '%s/results/%s.json' % (OUT, m['id'])
        if os.path.exists(res_path):
            continue
        t0 = time.time()
        sh('git -C %s checkout -q -- . && git -C %s clean -fdq src' % (repo, repo))
        apply_mutant(repo, m)
        r = dict(m)
        rc, out = sh('cargo test --workspace --no-fail-fast --offline 2>&1 | tail -60', cwd=repo, timeout=900)
        if 'could not compile' in out or 'error[' in out or 'error:' in out and 'test result' not in out:
            r['verdict'] = 'stillborn'
        elif '43 passed; 0 failed' not in out:
            r['verdict'] = 'killed_by_existing_tests'
        else:
            first = [c for c in anc.get(m['file'], []) if c in checks]
            order = first + [c for c in checks if c not in first]
            codes = {}
            killers = []
            for c in order:
                rc, out = sh('./check.sh %s quick' % c, cwd=work + '/verif', timeout=1800, env=env)
                codes[c] = rc
                if rc == 1:
                    killers.append(c)
                    if not args.all:
                        break
            r['codes'] = codes
            r['killers'] = killers
            r['verdict'] = 'killed' if killers else ('machinery_error' if any(v >= 2 or v < 0 for v in codes.values()) else 'survived')
        r['wall_s'] = round(time.time() - t0, 1)
        json.dump(r, open(res_path, 'w'), indent=1)
        print(m['id'], m['file'], m['line'], m['class'], repr(m['from']), '->', repr(m['to']), ':', r['verdict'], r.get('killers', ''), '%ds' % r['wall_s'], flush=True)
    sh('git -C %s checkout -q -- . && git -C %s clean -fdq src' % (repo, repo))


def table(args):
    pl = json.load(open(OUT + '/plan.json'))
    rows = []
    for m in pl['mutants']:
        p = '%s/results/%s.json' % (OUT, m['id'])
        if os.path.exists(p):
            rows.append(json.load(open(p)))
    cnt = {}
    for r in rows:
        cnt[r['verdict']] = cnt.get(r['verdict'], 0) + 1
    notes = {}
    if os.path.exists(OUT + '/survivor_notes.json'):
        notes = json.load(open(OUT + '/survivor_notes.json'))
    out = ['# Mechanical mutation sweep', '',
           'Generated %d single-token mutants of src/ (outside test modules, assertions excluded), %d chosen (at most %s per file, stratified by operator class, seed %s), %d judged so far.' % (pl['total_generated'], len(pl['mutants']), pl['per_file'], pl['seed'], len(rows)),
           '', 'Verdicts: ' + ', '.join('%s %d' % kv for kv in sorted(cnt.items())), '',
           '| id | file:line | operator | verdict | first killing quick check(s) | note |', '|---|---|---|---|---|---|']
    for r in rows:
        out.append('| %s | %s:%d | %s `%s` -> `%s` | %s | %s | %s |' % (r['id'], r['file'], r['line'], r['class'], r['from'][:40].replace('|', '\\|'), r['to'][:40].replace('|', '\\|'), r['verdict'], ' '.join(r.get('killers', [])), notes.get(r['id'], '')))
    open(OUT + '/RESULTS.md', 'w').write('\n'.join(out) + '\n')
    print(cnt)


if __name__ == '__main__':
    ap = argparse.ArgumentParser()
    sub = ap.add_subparsers(dest='cmd')
    p = sub.add_parser('plan'); p.add_argument('--per-file', type=int, default=8); p.add_argument('--seed', type=int, default=1); p.add_argument('--extend', action='store_true')
    p = sub.add_parser('run'); p.add_argument('--worker', type=int, default=0); p.add_argument('--of', type=int, default=1); p.add_argument('--work', default='/tmp/mut'); p.add_argument('--all', action='store_true')
    p = sub.add_parser('table')
    a = ap.parse_args()
    {'plan': plan, 'run': run, 'table': table}[a.cmd](a)
