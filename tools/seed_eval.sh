#!/bin/bash
# usage: seed_eval.sh <seed id> [check ids...]
# Developer triage in a scratch copy (so /repo and /verif stay usable meanwhile): applies
# /verif/seeded/<id>/patch.diff to a scratch worktree of /repo's HEAD and runs the quick checks of a
# scratch copy of the engine against it. Final confirmation of kept seeds is done against /repo itself
# (tools/seed_final.sh).
ID="$1"; shift
CHECKS="$@"
E=${EVALDIR:-/tmp/eval}
mkdir -p $E/out
HEAD=$(git -C /repo rev-parse HEAD)
if [ ! -d $E/repo ]; then git -C /repo worktree add -q --detach $E/repo $HEAD; else git -C $E/repo checkout -q -- . ; git -C $E/repo clean -fdq src; git -C $E/repo checkout -q --detach $HEAD; fi
rsync -a --delete --exclude target --exclude .git --exclude replays --exclude evidence /verif/ $E/verif/
sed -i "s#path = \"/repo\"#path = \"$E/repo\"#" $E/verif/engine/Cargo.toml
[ -z "$CHECKS" ] && CHECKS=$(python3 -c "import json;print(' '.join(c['property_id'] for c in json.load(open('/verif/MANIFEST.json'))['checks']))")
if ! git -C $E/repo apply /verif/seeded/$ID/patch.diff; then echo "$ID: PATCH DOES NOT APPLY to HEAD"; exit 2; fi
RES=""
for c in $CHECKS; do
  (cd $E/verif && VERIF_ROOT=$E/verif ./check.sh $c quick > $E/out/$ID.$c.log 2>&1); rc=$?
  RES="$RES $c=$rc"
done
git -C $E/repo checkout -q -- . && git -C $E/repo clean -fdq src
echo "$ID:$RES"
echo "$ID:$RES" >> $E/out/summary.txt
