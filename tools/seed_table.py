#!/usr/bin/env python3
"""Writes /verif/seeded/RESULTS.md from the meta.json files (after tools/seed_final.sh or tools/seed_eval.sh)."""
import json, glob, os, sys
rows = []
for d in sorted(glob.glob('/verif/seeded/C*')):
    if not os.path.isdir(d): continue
    m = json.load(open(d + '/meta.json'))
    sid = os.path.basename(d)
    rows.append((sid, m.get('property', '?'), ', '.join(m.get('files_changed', []))[:60], m.get('summary', '')[:160].replace('\n', ' '), m.get('needs_to_manifest', '')[:160].replace('\n', ' '), ' '.join(m.get('detected_by_quick_checks', [])) or m.get('status_at_head', '-'), m.get('matrix_source', '')))
out = ['# Seeded property-breaking changes and which quick checks catch them', '',
       'Each change was written by a fresh sub-agent that saw only the text of one property and a scratch worktree,',
       'confirmed independently (tools/seed_confirm.sh: clean tree + demo passes, patched tree passes the 43 existing',
       'tests, patched tree + demo fails), then applied to the repository and run against every registered quick check.', '',
       '| id | breaks | file | change | needs | quick checks that exit 1 |', '|---|---|---|---|---|---|']
for r in rows:
    out.append('| %s | %s | %s | %s | %s | %s |' % r[:6])
open('/verif/seeded/RESULTS.md', 'w').write('\n'.join(out) + '\n')
print(len(rows), 'rows')
