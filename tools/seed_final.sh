#!/bin/bash
# usage: seed_final.sh [seed ids...]   (default: every directory under /verif/seeded)
# Final confirmation against /repo itself: apply the patch (git -C /repo apply), run the quick checks,
# undo (git -C /repo checkout -- .). By default the checks run are the seed's own property check plus
# every check that the scratch triage (tools/seed_eval.sh summaries given in TRIAGE, default
# /tmp/eval/out/summary.txt /tmp/eval2/out/summary.txt) saw exit 1; ALL=1 runs every registered check.
cd /verif || exit 2
[ -z "$(git -C /repo status --short)" ] || { echo "/repo is not clean"; exit 2; }
IDS="$@"; [ -z "$IDS" ] && IDS=$(ls seeded | grep -E '^C[0-9]+[a-z]$')
ALLCHECKS=$(python3 -c "import json;print(' '.join(c['property_id'] for c in json.load(open('/verif/MANIFEST.json'))['checks']))")
TRIAGE=${TRIAGE:-"/tmp/eval/out/summary.txt /tmp/eval2/out/summary.txt"}
mkdir -p /verif/seeded/logs
for ID in $IDS; do
  if ! git -C /repo apply --check /verif/seeded/$ID/patch.diff 2>/dev/null; then
    echo "$ID: patch does not apply to /repo HEAD"; python3 - "$ID" <<'PY'
import json,sys
p='/verif/seeded/%s/meta.json'%sys.argv[1]; m=json.load(open(p)); m['status_at_head']='patch no longer applies to /repo HEAD (a later fix: commit changed the same lines)'; m.pop('detected_by_quick_checks',None); json.dump(m,open(p,'w'),indent=1)
PY
    continue
  fi
  OWN=$(echo $ID | cut -c1-3)
  if [ -n "$ALL" ]; then CHECKS="$ALLCHECKS"; else
    CHECKS=$( (echo $OWN; cat $TRIAGE 2>/dev/null | grep "^$ID:" | tr ' ' '\n' | grep '=1$' | cut -d= -f1) | sort -u | tr '\n' ' ')
  fi
  git -C /repo apply /verif/seeded/$ID/patch.diff
  DET=""; ALLRC=""
  for c in $CHECKS; do
    ./check.sh $c quick > seeded/logs/$ID.$c.log 2>&1; rc=$?
    ALLRC="$ALLRC $c=$rc"; [ $rc -eq 1 ] && DET="$DET $c"
    [ $rc -ge 2 ] && echo "$ID: check $c machinery exit $rc"
  done
  git -C /repo checkout -- . && git -C /repo clean -fdq src
  echo "$ID: ran:$ALLRC"
  python3 - "$ID" "$DET" "$ALLRC" <<'PY'
import json,sys
p='/verif/seeded/%s/meta.json'%sys.argv[1]; m=json.load(open(p))
m['detected_by_quick_checks']=sys.argv[2].split(); m['quick_check_exit_codes_against_repo']=sys.argv[3].strip()
m['status_at_head']='applies to /repo HEAD'
m['confirmed_independently']='tools/seed_confirm.sh in a scratch worktree: clean tree + demo passes; patched tree passes the 43 existing tests; patched tree + demo fails'
m['how_checks_were_run']='tools/seed_final.sh: git -C /repo apply patch.diff; ./check.sh <ID> quick for the listed checks (own property + those the scratch triage saw fail); git -C /repo checkout -- .'
json.dump(m,open(p,'w'),indent=1)
PY
done
./check.sh C14 quick > /dev/null 2>&1   # rebuild the engine against the clean tree
rm -rf seeded/logs
[ -z "$(git -C /repo status --short)" ] && echo "/repo clean"
