//! The explorers: TREE (all sequences up to a depth), CLOSURE (BFS with
//! state deduplication to a fixpoint) and job dispatch.

use crate::report::{Stats, Violation};
use crate::scalar::Scalar;
use rayon::prelude::*;
use serde_json::Value;
use std::cell::RefCell;
use std::collections::HashSet;
use std::hash::{Hash, Hasher};
use std::panic::{catch_unwind, AssertUnwindSafe};

thread_local! {
    static LAST_PANIC: RefCell<String> = const { RefCell::new(String::new()) };
    static IN_GUARD: std::cell::Cell<u32> = const { std::cell::Cell::new(0) };
}

pub fn install_panic_hook() {
    let default = std::panic::take_hook();
    std::panic::set_hook(Box::new(move |info| {
        let msg = if let Some(s) = info.payload().downcast_ref::<&str>() {
            s.to_string()
        } else if let Some(s) = info.payload().downcast_ref::<String>() {
            s.clone()
        } else {
            "panic".to_string()
        };
        let loc = info.location().map(|l| format!("{}:{}", l.file(), l.line())).unwrap_or_default();
        let guarded = IN_GUARD.with(|g| g.get()) > 0;
        LAST_PANIC.with(|p| *p.borrow_mut() = format!("{} at {}", msg, loc));
        if !guarded {
            default(info);
        }
    }));
}

/// Run `f`, converting an unwind into `Err(panic message)`.
pub fn guard<R>(f: impl FnOnce() -> R) -> Result<R, String> {
    IN_GUARD.with(|g| g.set(g.get() + 1));
    let r = catch_unwind(AssertUnwindSafe(f));
    IN_GUARD.with(|g| g.set(g.get() - 1));
    r.map_err(|_| LAST_PANIC.with(|p| p.borrow().clone()))
}

#[derive(Clone, Copy, PartialEq, Eq, Debug)]
pub enum Step {
    Go,
    Prune,
}

/// Depth-first enumeration of every sequence over `alpha` of length <= depth.
/// `f(state, history)` is called on a fresh clone of the parent state with the
/// history *including* the new letter; it performs the real updates and
/// evaluates the oracle. A panic escaping `f` is passed to `on_panic`.
pub fn tree<T: Scalar, S: Clone>(
    root: &S,
    alpha: &[f64],
    depth: usize,
    st: &mut Stats,
    f: &mut dyn FnMut(&mut S, &[f64], &mut Stats) -> Step,
    on_panic: &mut dyn FnMut(&[f64], String),
) {
    st.states += 1;
    let mut hist: Vec<f64> = Vec::with_capacity(depth);
    if depth == 0 {
        st.traces += 1;
        return;
    }
    rec::<T, S>(root, alpha, depth, st, f, on_panic, &mut hist);
}

fn rec<T: Scalar, S: Clone>(
    s: &S,
    alpha: &[f64],
    depth: usize,
    st: &mut Stats,
    f: &mut dyn FnMut(&mut S, &[f64], &mut Stats) -> Step,
    on_panic: &mut dyn FnMut(&[f64], String),
    hist: &mut Vec<f64>,
) {
    for &a in alpha {
        let mark = T::mark();
        hist.push(a);
        st.states += 1;
        st.max_depth = st.max_depth.max(hist.len());
        let r = guard(|| {
            let mut c = s.clone();
            let step = f(&mut c, hist, st);
            (c, step)
        });
        match r {
            Ok((c, Step::Go)) => {
                if hist.len() < depth {
                    rec::<T, S>(&c, alpha, depth, st, f, on_panic, hist);
                } else {
                    st.traces += 1;
                    // keep a late (not the all-first-letter) leaf as a sample of what was run
                    if st.sample_traces.len() < 2 && st.traces % 97 == 5 {
                        st.sample_traces.push(hist.clone());
                    }
                }
            }
            Ok((_, Step::Prune)) => {
                st.traces += 1;
            }
            Err(msg) => {
                st.traces += 1;
                on_panic(hist, msg);
            }
        }
        hist.pop();
        T::rollback(mark);
    }
}

pub fn hash128(s: &str) -> u128 {
    let mut h1 = std::collections::hash_map::DefaultHasher::new();
    0x9e3779b97f4a7c15u64.hash(&mut h1);
    s.hash(&mut h1);
    let mut h2 = std::collections::hash_map::DefaultHasher::new();
    0xc2b2ae3d27d4eb4fu64.hash(&mut h2);
    s.len().hash(&mut h2);
    s.hash(&mut h2);
    ((h1.finish() as u128) << 64) | h2.finish() as u128
}

pub struct ClosureResult {
    pub closed: bool,
    pub depth_complete: usize,
    pub states: u64,
}

/// Breadth-first search with deduplication on `key(state)`. Each transition
/// calls `f` (which calls the real `update`) on a clone of the source state.
/// Stops at a level boundary once `cap` states have been seen.
pub fn closure<S: Clone>(
    root: S,
    alpha: &[f64],
    cap: usize,
    max_depth: usize,
    st: &mut Stats,
    key: &dyn Fn(&S) -> String,
    f: &mut dyn FnMut(&mut S, &[f64], &mut Stats) -> Step,
    on_panic: &mut dyn FnMut(&[f64], String),
) -> ClosureResult {
    let mut seen: HashSet<u128> = HashSet::new();
    // (parent index, letter index) per state for path reconstruction
    let mut parents: Vec<(u32, u8)> = vec![(u32::MAX, 0)];
    seen.insert(hash128(&key(&root)));
    let mut frontier: Vec<(u32, S)> = vec![(0, root)];
    let mut depth = 0usize;
    let mut closed = false;
    let path = |parents: &Vec<(u32, u8)>, mut i: u32, last: f64| -> Vec<f64> {
        let mut p = vec![last];
        while parents[i as usize].0 != u32::MAX {
            p.push(alpha[parents[i as usize].1 as usize]);
            i = parents[i as usize].0;
        }
        p.reverse();
        p
    };
    while depth < max_depth {
        if frontier.is_empty() {
            closed = true;
            break;
        }
        if seen.len() >= cap {
            break;
        }
        let mut next: Vec<(u32, S)> = Vec::new();
        for (idx, s) in frontier.iter() {
            for (li, &a) in alpha.iter().enumerate() {
                let hist = path(&parents, *idx, a);
                st.max_depth = st.max_depth.max(hist.len());
                let r = guard(|| {
                    let mut c = s.clone();
                    let step = f(&mut c, &hist, st);
                    (c, step)
                });
                match r {
                    Ok((c, Step::Go)) => {
                        let k = hash128(&key(&c));
                        if seen.insert(k) {
                            parents.push((*idx, li as u8));
                            next.push(((parents.len() - 1) as u32, c));
                        }
                    }
                    Ok((_, Step::Prune)) => {}
                    Err(msg) => on_panic(&hist, msg),
                }
            }
        }
        st.traces += frontier.len() as u64 * alpha.len() as u64;
        frontier = next;
        depth += 1;
    }
    if frontier.is_empty() {
        closed = true;
    }
    st.states += seen.len() as u64;
    if closed {
        st.closures_closed += 1;
    } else {
        st.closures_open += 1;
        st.min_open_depth = Some(st.min_open_depth.map_or(depth, |d| d.min(depth)));
    }
    ClosureResult { closed, depth_complete: depth, states: seen.len() as u64 }
}

// ---------------------------------------------------------------------------

#[derive(Default)]
pub struct JobOut {
    pub stats: Stats,
    pub viols: Vec<Violation>,
    pub samples: Vec<Value>,
}

pub type Job = Box<dyn Fn() -> JobOut + Send + Sync>;

/// Run all jobs on the rayon pool. An engine panic inside a job (outside any
/// `guard`) is a machinery error: exit code 2, never a verdict.
pub fn run_jobs(mut jobs: Vec<Job>, seed: u64) -> JobOut {
    let n = jobs.len();
    if n > 0 {
        jobs.rotate_left((seed as usize) % n);
    }
    let outs: Vec<Result<JobOut, String>> = jobs
        .par_iter()
        .map(|j| {
            crate::q::Q::reset();
            let r = catch_unwind(AssertUnwindSafe(|| j()));
            crate::q::Q::reset();
            r.map_err(|e| {
                if let Some(s) = e.downcast_ref::<&str>() {
                    s.to_string()
                } else if let Some(s) = e.downcast_ref::<String>() {
                    s.clone()
                } else {
                    "engine panic".into()
                }
            })
        })
        .collect();
    let mut total = JobOut::default();
    for o in outs {
        match o {
            Ok(o) => {
                total.stats.merge(o.stats);
                total.viols.extend(o.viols);
                if total.samples.len() < 12 {
                    total.samples.extend(o.samples.into_iter().take(2));
                }
            }
            Err(m) => {
                eprintln!("MACHINERY ERROR: engine job panicked: {}", m);
                std::process::exit(2);
            }
        }
    }
    total
}

/// all sequences over `alpha` of length exactly `len`
pub fn sequences(alpha: &[f64], len: usize) -> Vec<Vec<f64>> {
    let mut out = vec![vec![]];
    for _ in 0..len {
        let mut n = Vec::with_capacity(out.len() * alpha.len());
        for s in &out {
            for &a in alpha {
                let mut t = s.clone();
                t.push(a);
                n.push(t);
            }
        }
        out = n;
    }
    out
}

/// all sequences of length 0..=len
pub fn sequences_upto(alpha: &[f64], len: usize) -> Vec<Vec<f64>> {
    let mut out = vec![];
    for l in 0..=len {
        out.extend(sequences(alpha, l));
    }
    out
}

/// all cycles (as sequences) of period 1..=p
pub fn cycles(alpha: &[f64], p: usize) -> Vec<Vec<f64>> {
    let mut out = vec![];
    for l in 1..=p {
        out.extend(sequences(alpha, l));
    }
    out
}
