//! Enumeration of programs (trees of views) for the catalogue-wide checks.

use crate::spec::{entry, mk, unary_catalogue, Kind, Spec};

/// all secondary-parameter variants of one unary kind at window n over `child`
pub fn variants(kind: Kind, n: usize, child: &Spec) -> Vec<Spec> {
    use Kind::*;
    let c = || child.clone();
    match kind {
        GTE | LTE => [0.5, 0.0, -1.0].iter().map(|p| Spec::unp(kind, 0, vec![*p], c())).collect(),
        EmaAlpha => [1.0, 0.5].iter().map(|p| Spec::unp(kind, n, vec![*p], c())).collect(),
        AlmaCustom => vec![Spec::unp(kind, n, vec![4.0, 0.5], c()), Spec::unp(kind, n, vec![2.0, 1.0], c())],
        LaguerreFilter => [0.0, 0.5, 0.8].iter().map(|p| Spec::unp(kind, 0, vec![*p], c())).collect(),
        Roofing => [1usize, 2, 3].iter().map(|m| Spec::roofing(n, *m, c())).collect(),
        Pfe | Eft => vec![
            Spec::with_ma(kind, n, c(), Spec::un(Sma, 2, Spec::echo())),
            Spec::with_ma(kind, n, c(), Spec::un(Ema, 3, Spec::echo())),
            // an averaging view that overshoots its input (not a convex combination)
            Spec::with_ma(kind, n, c(), Spec::un(SuperSmoother, 2, Spec::echo())),
        ],
        k => vec![mk(k, n, c())],
    }
}

/// every public unary view over `child` at window n, default secondary parameters
pub fn singles(n: usize, child: &Spec) -> Vec<Spec> {
    unary_catalogue().iter().map(|e| mk(e.kind, n, child.clone())).collect()
}

/// does the program contain a view whose input must be strictly positive?
pub fn needs_positive(s: &Spec) -> bool {
    entry(s.kind).positive_domain || s.ch.iter().take(s.input_children()).any(needs_positive)
}

/// is the output of this program > 0 for all positive inputs?
pub fn positive_preserving(s: &Spec) -> bool {
    match s.kind {
        Kind::Echo | Kind::Probe => true,
        Kind::Constant => s.p[0] > 0.0,
        Kind::GTE => s.p[0] > 0.0 || positive_preserving(&s.ch[0]),
        Kind::LTE => s.p[0] > 0.0 && positive_preserving(&s.ch[0]),
        Kind::Add | Kind::Multiply | Kind::Divide => positive_preserving(&s.ch[0]) && positive_preserving(&s.ch[1]),
        k => entry(k).positive_preserving && !s.ch.is_empty() && positive_preserving(&s.ch[0]),
    }
}

/// is every positive-domain view in the program fed by a positive-preserving sub-program?
pub fn domain_ok(s: &Spec) -> bool {
    let kids_ok = s.ch.iter().take(s.input_children()).all(domain_ok);
    if !kids_ok {
        return false;
    }
    if entry(s.kind).positive_domain {
        return positive_preserving(&s.ch[0]);
    }
    true
}

/// can this program (on an alphabet of its domain) ever output exactly 0? (conservative: true unless known otherwise)
pub fn never_zero(s: &Spec) -> bool {
    match s.kind {
        Kind::Constant => s.p[0] != 0.0,
        Kind::GTE => s.p[0] > 0.0,
        Kind::LTE => s.p[0] < 0.0,
        _ => false,
    }
}

/// the window length at which a kind is first "meaningful" (DESIGN 1.2), clamped to n
pub fn n_for(kind: Kind, n: usize) -> usize {
    n.max(entry(kind).min_n)
}

/// every two-level chain outer(inner(Echo)), windows clamped to each kind's meaningful minimum
pub fn chains(n_outer: usize, n_inner: usize) -> Vec<Spec> {
    let mut v = vec![];
    for o in unary_catalogue() {
        for i in unary_catalogue() {
            let inner = mk(i.kind, n_for(i.kind, n_inner), Spec::echo());
            let s = mk(o.kind, n_for(o.kind, n_outer), inner);
            if domain_ok(&s) {
                v.push(s);
            }
        }
    }
    v
}
