//! The scalars the crate's generic code is instantiated at: f64, f32, the exact rational Q and the
//! coarse float Lo (10-bit significand).

use crate::q::Q;
use num::Float;

pub trait Scalar: Float + std::fmt::Debug + Send + Sync + 'static {
    const NAME: &'static str;
    /// arithmetic is exact (rational)
    const EXACT: bool;
    /// unit roundoff (0 for Q)
    const EPS: f64;
    /// the scalar value of an f64 letter (exact for f64 and Q, rounded for f32)
    fn of(x: f64) -> Self;
    fn f(self) -> f64;
    /// identity key: bit pattern for floats, num/den for Q
    fn key(self) -> String;
    /// bit-identical (NaN equals NaN with the same payload); exact equality for Q
    fn same(self, o: Self) -> bool;
    fn mark() -> usize {
        0
    }
    fn rollback(_m: usize) {}
    fn reset_arena() {}
    fn inexact() -> u64 {
        0
    }
}

impl Scalar for f64 {
    const NAME: &'static str = "f64";
    const EXACT: bool = false;
    const EPS: f64 = f64::EPSILON;
    fn of(x: f64) -> f64 {
        x
    }
    fn f(self) -> f64 {
        self
    }
    fn key(self) -> String {
        format!("{:?}", self)
    }
    fn same(self, o: f64) -> bool {
        self.to_bits() == o.to_bits()
    }
}

impl Scalar for f32 {
    const NAME: &'static str = "f32";
    const EXACT: bool = false;
    const EPS: f64 = f32::EPSILON as f64;
    fn of(x: f64) -> f32 {
        x as f32
    }
    fn f(self) -> f64 {
        self as f64
    }
    fn key(self) -> String {
        format!("{:?}", self)
    }
    fn same(self, o: f32) -> bool {
        self.to_bits() == o.to_bits()
    }
}

impl Scalar for crate::lo::Lo {
    const NAME: &'static str = "Lo (10-bit significand)";
    const EXACT: bool = false;
    const EPS: f64 = 0.001953125;
    fn of(x: f64) -> Self {
        crate::lo::Lo(crate::lo::round(x))
    }
    fn f(self) -> f64 {
        self.0
    }
    fn key(self) -> String {
        format!("{:?}", self.0)
    }
    fn same(self, o: Self) -> bool {
        self.0.to_bits() == o.0.to_bits()
    }
}

impl Scalar for Q {
    const NAME: &'static str = "Q";
    const EXACT: bool = true;
    const EPS: f64 = 0.0;
    fn of(x: f64) -> Q {
        Q::from_f64_exact(x)
    }
    fn f(self) -> f64 {
        self.to_f64_lossy()
    }
    fn key(self) -> String {
        Q::key(self)
    }
    fn same(self, o: Q) -> bool {
        if self.is_nan() && o.is_nan() {
            return true;
        }
        self == o
    }
    fn mark() -> usize {
        Q::mark()
    }
    fn rollback(m: usize) {
        Q::rollback(m)
    }
    fn reset_arena() {
        Q::reset()
    }
    fn inexact() -> u64 {
        Q::inexact_ops()
    }
}

pub fn opt_same<T: Scalar>(a: Option<T>, b: Option<T>) -> bool {
    match (a, b) {
        (None, None) => true,
        (Some(x), Some(y)) => x.same(y),
        _ => false,
    }
}

pub fn opt_key<T: Scalar>(a: Option<T>) -> String {
    match a {
        None => "None".into(),
        Some(x) => x.key(),
    }
}

pub fn opt_f<T: Scalar>(a: Option<T>) -> Option<f64> {
    a.map(|x| x.f())
}
