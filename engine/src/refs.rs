//! Reference models: boring batch functions from the complete history of
//! delivered values to the expected answer, written from the property
//! statements (not from the implementation). Generic over the scalar so the
//! same definition is evaluated exactly (Q) or in floating point.

use crate::scalar::Scalar;

pub fn t<T: Scalar>(x: f64) -> T {
    T::of(x)
}
pub fn tn<T: Scalar>(n: usize) -> T {
    T::of(n as f64)
}

/// the last min(len, n) values
pub fn window<T>(h: &[T], n: usize) -> &[T] {
    &h[h.len().saturating_sub(n)..]
}

pub fn sum<T: Scalar>(w: &[T]) -> T {
    let mut s = T::zero();
    for x in w {
        s = s + *x;
    }
    s
}
pub fn mean<T: Scalar>(w: &[T]) -> T {
    sum(w) / tn::<T>(w.len())
}
pub fn minv<T: Scalar>(w: &[T]) -> T {
    let mut m = w[0];
    for x in w {
        if *x < m {
            m = *x;
        }
    }
    m
}
pub fn maxv<T: Scalar>(w: &[T]) -> T {
    let mut m = w[0];
    for x in w {
        if *x > m {
            m = *x;
        }
    }
    m
}
pub fn is_flat<T: Scalar>(w: &[T]) -> bool {
    w.iter().all(|x| *x == w[0])
}
/// sum of squared deviations from the mean
pub fn ssd<T: Scalar>(w: &[T]) -> T {
    let m = mean(w);
    let mut s = T::zero();
    for x in w {
        s = s + (*x - m) * (*x - m);
    }
    s
}
/// sample variance (n-1), 0 for n <= 1
pub fn sample_var<T: Scalar>(w: &[T]) -> T {
    if w.len() <= 1 {
        return T::zero();
    }
    ssd(w) / tn::<T>(w.len() - 1)
}
/// population variance (n)
pub fn pop_var<T: Scalar>(w: &[T]) -> T {
    if w.is_empty() {
        return T::zero();
    }
    ssd(w) / tn::<T>(w.len())
}

pub fn hl_norm<T: Scalar>(w: &[T]) -> T {
    let (lo, hi) = (minv(w), maxv(w));
    if hi == lo {
        return T::zero();
    }
    let x = *w.last().unwrap();
    t::<T>(2.0) * (x - lo) / (hi - lo) - T::one()
}

/// Roc with window n over the complete history: base x_{t-n}, or x_0 while
/// fewer than n+1 values exist; previous output held when the base is 0.
pub fn roc<T: Scalar>(h: &[T], n: usize) -> Option<T> {
    let mut out = None;
    for i in 0..h.len() {
        let base = if i >= n { h[i - n] } else { h[0] };
        if base != T::zero() {
            out = Some((h[i] - base) / base * t::<T>(100.0));
        }
    }
    out
}
pub fn roc_base<T: Scalar>(h: &[T], n: usize) -> T {
    let i = h.len() - 1;
    if i >= n {
        h[i - n]
    } else {
        h[0]
    }
}

/// Shannon entropy (bits) of the fraction of non-negative values in w
pub fn binary_entropy<T: Scalar>(w: &[T]) -> T {
    let p = w.iter().filter(|x| **x >= T::zero()).count();
    if p == 0 || p == w.len() {
        return T::zero();
    }
    let pt = tn::<T>(p) / tn::<T>(w.len());
    let pn = T::one() - pt;
    -(pt * pt.log2() + pn * pn.log2())
}

// --- RSI family (C05) -------------------------------------------------------

/// (G, L): sums of positive / absolute non-positive changes over the n most
/// recent values; d = 0 for the very first value of the stream.
pub fn gains_losses<T: Scalar>(h: &[T], n: usize) -> (T, T) {
    let len = h.len();
    let start = len.saturating_sub(n);
    let (mut g, mut l) = (T::zero(), T::zero());
    for i in start..len {
        let d = if i == 0 { T::zero() } else { h[i] - h[i - 1] };
        if d > T::zero() {
            g = g + d;
        } else {
            l = l + d.abs();
        }
    }
    (g, l)
}
pub fn rsi<T: Scalar>(h: &[T], n: usize) -> Option<T> {
    if h.len() < n {
        return None;
    }
    let (g, l) = gains_losses(h, n);
    if l == T::zero() {
        return Some(t::<T>(100.0));
    }
    Some(t::<T>(100.0) * g / (g + l))
}
/// MyRSI: (G-L)/(G+L), previous output (initially 0) held while G+L = 0
pub fn my_rsi<T: Scalar>(h: &[T], n: usize) -> Option<T> {
    let mut out = T::zero();
    for i in 1..=h.len() {
        let (g, l) = gains_losses(&h[..i], n);
        if g + l != T::zero() {
            out = (g - l) / (g + l);
        }
    }
    if h.len() < n {
        None
    } else {
        Some(out)
    }
}

// --- correlation measures (C06) ---------------------------------------------

/// Pearson correlation of the window with its time index; 0 when either variance is 0
pub fn pearson_time<T: Scalar>(w: &[T]) -> T {
    let n = w.len();
    let idx: Vec<T> = (0..n).map(|i| tn::<T>(i)).collect();
    let (mx, my) = (mean(w), mean(&idx));
    let (mut sxy, mut sxx, mut syy) = (T::zero(), T::zero(), T::zero());
    for i in 0..n {
        sxy = sxy + (w[i] - mx) * (idx[i] - my);
        sxx = sxx + (w[i] - mx) * (w[i] - mx);
        syy = syy + (idx[i] - my) * (idx[i] - my);
    }
    if sxx == T::zero() || syy == T::zero() {
        return T::zero();
    }
    sxy / (sxx * syy).sqrt()
}
/// Kendall tau-a against time over all pairs, ties contribute 0
pub fn kendall_time<T: Scalar>(w: &[T]) -> T {
    let n = w.len();
    let mut s: i64 = 0;
    for i in 0..n {
        for j in i + 1..n {
            if w[j] > w[i] {
                s += 1;
            } else if w[j] < w[i] {
                s -= 1;
            }
        }
    }
    t::<T>(s as f64) / t::<T>((n * (n - 1)) as f64 / 2.0)
}
/// (n+1)/2 - sum k x_{t-k+1} / sum x_{t-k+1}, k = 1 newest; 0 when denominator is 0
pub fn center_of_gravity<T: Scalar>(w: &[T]) -> T {
    let n = w.len();
    let (mut num, mut den) = (T::zero(), T::zero());
    for k in 1..=n {
        let x = w[n - k];
        num = num + tn::<T>(k) * x;
        den = den + x;
    }
    if den == T::zero() {
        return T::zero();
    }
    (tn::<T>(n) + T::one()) / t::<T>(2.0) - num / den
}
pub fn strictly_increasing<T: Scalar>(w: &[T]) -> bool {
    w.windows(2).all(|p| p[1] > p[0])
}
pub fn strictly_decreasing<T: Scalar>(w: &[T]) -> bool {
    w.windows(2).all(|p| p[1] < p[0])
}
pub fn arithmetic_progression<T: Scalar>(w: &[T]) -> bool {
    w.len() < 3 || w.windows(3).all(|p| p[2] - p[1] == p[1] - p[0])
}

// --- moving averages (C04) --------------------------------------------------

/// e_0 = x_0, e_t = w x_t + (1-w) e_{t-1}
pub fn ema<T: Scalar>(h: &[T], w: T) -> T {
    let mut e = h[0];
    for x in &h[1..] {
        e = w * *x + (T::one() - w) * e;
    }
    e
}
pub fn alma_weight<T: Scalar>(k: usize, n: usize, sigma: T, offset: T) -> T {
    let m = offset * (tn::<T>(n) + T::one());
    let s = tn::<T>(n) / sigma;
    (-(tn::<T>(k) - m).powi(2) / (t::<T>(2.0) * s * s)).exp()
}
/// Alma with weights attached at insertion: the sample inserted when the
/// window held k samples carries weight w(k) for its whole stay.
pub fn alma_insertion<T: Scalar>(h: &[T], n: usize, sigma: T, offset: T) -> T {
    let mut ks: Vec<usize> = vec![];
    let mut held = 0usize;
    for _ in 0..h.len() {
        if held >= n {
            held -= 1;
        }
        ks.push(held);
        held += 1;
    }
    let start = h.len().saturating_sub(n);
    let (mut num, mut den) = (T::zero(), T::zero());
    for i in start..h.len() {
        let w = alma_weight(ks[i], n, sigma, offset);
        num = num + w * h[i];
        den = den + w;
    }
    num / den
}
/// Alma with positional weights: the sample at position k (0 = oldest) of the window carries w(k)
pub fn alma_positional<T: Scalar>(h: &[T], n: usize, sigma: T, offset: T) -> T {
    let w = window(h, n);
    let (mut num, mut den) = (T::zero(), T::zero());
    for (k, x) in w.iter().enumerate() {
        let wt = alma_weight(k, n, sigma, offset);
        num = num + wt * *x;
        den = den + wt;
    }
    num / den
}

// --- rolling (C13) ----------------------------------------------------------

pub fn drawdown<T: Scalar>(h: &[T]) -> T {
    let mut peak = h[0];
    let mut dd = T::zero();
    for x in h {
        if *x > peak {
            peak = *x;
        }
        let d = (peak - *x) / peak;
        if d > dd {
            dd = d;
        }
    }
    dd
}
pub fn ln_return<T: Scalar>(h: &[T]) -> Option<T> {
    if h.len() < 2 {
        return None;
    }
    Some((h[h.len() - 1] / h[h.len() - 2]).ln())
}

/// The reference models against hand-computed values (from the property statements and
/// from the repository's own scripted tests), at the exact scalar. Run before every check.
pub fn self_test() -> Result<(), String> {
    use crate::q::Q;
    use num::Float;
    Q::reset();
    let v = |xs: &[f64]| -> Vec<Q> { xs.iter().map(|x| Q::of(*x)).collect() };
    let r = Q::from_ratio;
    let ck = |name: &str, ok: bool| if ok { Ok(()) } else { Err(format!("reference self-test failed: {}", name)) };
    ck("mean", mean(&v(&[1.0, 2.0, 3.0])) == r(2, 1))?;
    ck("sample variance", sample_var(&v(&[1.0, 2.0, 3.0])) == r(1, 1) && sample_var(&v(&[5.0])) == r(0, 1))?;
    ck("population variance", pop_var(&v(&[1.0, 2.0, 3.0])) == r(2, 3))?;
    ck("window", window(&[1, 2, 3, 4], 2) == [3, 4] && window(&[1], 3) == [1])?;
    ck("hl", hl_norm(&v(&[0.0, 10.0, 5.0])) == r(0, 1) && hl_norm(&v(&[5.0, 5.0])) == r(0, 1) && hl_norm(&v(&[0.0, 4.0, 1.0])) == r(-1, 2))?;
    ck("roc", roc(&v(&[100.0, 110.0]), 1) == Some(r(10, 1)) && roc(&v(&[0.0, 5.0]), 1).is_none() && roc(&v(&[2.0, 0.0, 3.0]), 1) == Some(r(-100, 1)))?;
    ck("entropy", binary_entropy(&v(&[1.0, -1.0])) == r(1, 1) && binary_entropy(&v(&[1.0, 0.0])) == r(0, 1))?;
    ck("rsi", rsi(&v(&[1.0, 2.0, 3.0]), 2) == Some(r(100, 1)) && rsi(&v(&[3.0, 2.0, 1.0]), 2) == Some(r(0, 1)) && rsi(&v(&[1.0, 3.0, 2.0]), 2) == Some(r(200, 3)) && rsi(&v(&[1.0]), 2).is_none())?;
    ck("myrsi", my_rsi(&v(&[3.0, 2.0, 1.0]), 2) == Some(r(-1, 1)) && my_rsi(&v(&[1.0, 3.0, 2.0]), 2) == Some(r(1, 3)) && my_rsi(&v(&[1.0, 3.0, 3.0, 3.0]), 2) == Some(r(1, 1)))?;
    ck("kendall", kendall_time(&v(&[1.0, 2.0, 3.0])) == r(1, 1) && kendall_time(&v(&[1.0, 1.0, 2.0])) == r(2, 3) && kendall_time(&v(&[2.0, 2.0, 2.0])) == r(0, 1))?;
    ck("pearson", pearson_time(&v(&[1.0, 2.0, 3.0])) == r(1, 1) && pearson_time(&v(&[2.0, 2.0])) == r(0, 1) && (pearson_time(&v(&[1.0, 2.0, 4.0])).f() - 0.9819805060619659).abs() < 1e-12)?;
    ck("cog", center_of_gravity(&v(&[2.0, 2.0, 2.0])) == r(0, 1) && center_of_gravity(&v(&[1.0, -1.0])) == r(0, 1) && center_of_gravity(&v(&[1.0, 3.0])) == r(1, 4))?;
    ck("ema", ema(&v(&[1.0, 2.0]), r(2, 3)) == r(5, 3) && ema(&v(&[0.0, -1.0]), r(2, 3)) == r(-2, 3))?;
    ck("drawdown", (drawdown(&v(&[100.0, 80.0, 110.0, 95.0, 87.0])).f() - 0.20909090909090908).abs() < 1e-15 && drawdown(&v(&[1.0, 2.0])) == r(0, 1))?;
    ck("ln return", (ln_return(&v(&[100.0, 110.0])).unwrap().f() - 0.09531017980432493).abs() < 1e-15 && ln_return(&v(&[1.0])).is_none())?;
    let (g, l) = gains_losses(&v(&[5.0, 1.0, 4.0, 4.0, 2.0]), 3);
    ck("gains/losses over the 3 most recent values", g == r(3, 1) && l == r(2, 1))?;
    Q::reset();
    Ok(())
}
