//! Counting global allocator with thread-local live-byte counters (C18).
use std::alloc::{GlobalAlloc, Layout, System};
use std::cell::Cell;

thread_local! {
    static LIVE: Cell<i64> = const { Cell::new(0) };
}

pub struct Counting;

unsafe impl GlobalAlloc for Counting {
    unsafe fn alloc(&self, l: Layout) -> *mut u8 {
        let _ = LIVE.try_with(|c| c.set(c.get() + l.size() as i64));
        unsafe { System.alloc(l) }
    }
    unsafe fn dealloc(&self, p: *mut u8, l: Layout) {
        let _ = LIVE.try_with(|c| c.set(c.get() - l.size() as i64));
        unsafe { System.dealloc(p, l) }
    }
    unsafe fn realloc(&self, p: *mut u8, l: Layout, new: usize) -> *mut u8 {
        let _ = LIVE.try_with(|c| c.set(c.get() + new as i64 - l.size() as i64));
        unsafe { System.realloc(p, l, new) }
    }
}

#[global_allocator]
static A: Counting = Counting;

/// live heap bytes allocated (net) by the current thread
pub fn live() -> i64 {
    LIVE.with(|c| c.get())
}
