//! Violations, known findings, replay files and evidence files.

use crate::spec::Spec;
use serde::{Deserialize, Serialize};
use serde_json::{json, Value};
use std::cell::RefCell;
use std::collections::{BTreeMap, HashSet};
use std::path::{Path, PathBuf};

#[derive(Clone, Debug, Serialize, Deserialize, PartialEq)]
#[serde(untagged)]
pub enum Op {
    U(f64),
    /// "last" or "clone"
    Call(String),
}

/// compact rendering for log lines (the replay file holds the full list)
pub fn show_ops(ops: &[Op]) -> String {
    let one = |o: &Op| match o {
        Op::U(x) => format!("{}", x),
        Op::Call(c) => c.clone(),
    };
    if ops.len() <= 24 {
        format!("[{}]", ops.iter().map(one).collect::<Vec<_>>().join(", "))
    } else {
        format!("[{}, ... {} more ..., {}]", ops[..10].iter().map(one).collect::<Vec<_>>().join(", "), ops.len() - 14, ops[ops.len() - 4..].iter().map(one).collect::<Vec<_>>().join(", "))
    }
}

pub fn ops_of(hist: &[f64]) -> Vec<Op> {
    hist.iter().map(|x| Op::U(*x)).collect()
}

#[derive(Clone, Debug, Serialize, Deserialize)]
pub struct Violation {
    pub property: String,
    /// outermost kind of the subject view (matching key for known findings)
    pub kind: String,
    /// full name of the subject program
    pub view: String,
    pub clause: String,
    pub scalar: String,
    pub profile: String,
    pub n: usize,
    /// facts about the failing step established by the reference model
    pub tags: Vec<String>,
    pub spec: Spec,
    pub ops: Vec<Op>,
    /// expected vs. got, in words
    pub detail: String,
}

impl Violation {
    pub fn new(property: &str, spec: &Spec, clause: &str, scalar: &str, hist: &[f64], detail: String) -> Violation {
        Violation {
            property: property.into(),
            kind: spec.kind_name(),
            view: spec.name(),
            clause: clause.into(),
            scalar: scalar.into(),
            profile: crate::PROFILE.into(),
            n: spec.n,
            tags: vec![],
            spec: spec.clone(),
            ops: ops_of(hist),
            detail,
        }
    }
    pub fn tag(mut self, t: &str) -> Violation {
        self.tags.push(t.into());
        self
    }
    pub fn tag_if2(mut self, c: bool, t: &str) -> Violation {
        if c {
            self.tags.push(t.into());
        }
        self
    }
    pub fn tags(mut self, t: &[String]) -> Violation {
        self.tags.extend(t.iter().cloned());
        self
    }
    pub fn group(&self) -> (String, String, String) {
        (self.kind.clone(), self.clause.clone(), self.scalar.clone())
    }
}

/// Collects violations; keeps, per (view, clause, scalar), the shortest few.
#[derive(Default)]
pub struct Sink {
    v: RefCell<Vec<Violation>>,
    count: RefCell<u64>,
}
impl Sink {
    pub fn new() -> Sink {
        Sink::default()
    }
    pub fn push(&self, v: Violation) {
        *self.count.borrow_mut() += 1;
        let mut l = self.v.borrow_mut();
        // bound memory: keep at most 64 per job, preferring short histories
        if l.len() >= 64 {
            let (imax, lmax) = l.iter().enumerate().map(|(i, x)| (i, x.ops.len())).max_by_key(|x| x.1).unwrap();
            if v.ops.len() < lmax {
                l[imax] = v;
            }
            return;
        }
        l.push(v);
    }
    /// add a tag to the most recently pushed violation
    pub fn retag_last(&self, t: &str) {
        if let Some(v) = self.v.borrow_mut().last_mut() {
            v.tags.push(t.into());
        }
    }
    pub fn take(&self) -> Vec<Violation> {
        std::mem::take(&mut *self.v.borrow_mut())
    }
    pub fn count(&self) -> u64 {
        *self.count.borrow()
    }
    pub fn is_empty(&self) -> bool {
        self.v.borrow().is_empty()
    }
}

#[derive(Clone, Debug, Serialize, Deserialize)]
pub struct KnownFinding {
    pub id: String,
    pub property: String,
    pub kind: String,
    pub clause: String,
    #[serde(default)]
    pub scalar: Option<String>,
    #[serde(default)]
    pub profile: Option<String>,
    #[serde(default)]
    pub n_min: Option<usize>,
    #[serde(default)]
    pub n_max: Option<usize>,
    /// all of these must be among the violation's tags
    #[serde(default)]
    pub tags: Vec<String>,
    pub what: String,
    #[serde(default)]
    pub witness: Option<String>,
    /// "open" or "fixed: <commit> ..."; only "open" entries match anything
    pub status: String,
}

impl KnownFinding {
    pub fn matches(&self, v: &Violation) -> bool {
        self.status == "open"
            && self.property == v.property
            && self.kind == v.kind
            && self.clause == v.clause
            && self.scalar.as_ref().map_or(true, |s| *s == v.scalar)
            && self.profile.as_ref().map_or(true, |s| *s == v.profile)
            && self.n_min.map_or(true, |m| v.n >= m)
            && self.n_max.map_or(true, |m| v.n <= m)
            && self.tags.iter().all(|t| v.tags.contains(t))
    }
}

pub fn verif_root() -> PathBuf {
    if let Ok(p) = std::env::var("VERIF_ROOT") {
        return PathBuf::from(p);
    }
    // engine binary lives in <root>/engine/target/<profile>/sfmc
    let exe = std::env::current_exe().expect("exe path");
    let mut p: &Path = exe.as_path();
    for _ in 0..4 {
        p = p.parent().expect("exe depth");
    }
    p.to_path_buf()
}

pub fn load_known(root: &Path) -> Vec<KnownFinding> {
    let p = root.join("known_findings.json");
    match std::fs::read_to_string(&p) {
        Ok(s) => {
            let v: Value = serde_json::from_str(&s).expect("known_findings.json parses");
            serde_json::from_value(v["findings"].clone()).expect("known_findings.json schema")
        }
        Err(_) => vec![],
    }
}

#[derive(Default, Clone, Debug)]
pub struct Stats {
    pub states: u64,
    pub transitions: u64,
    pub traces: u64,
    pub max_depth: usize,
    pub configs: u64,
    pub closures_closed: u64,
    pub closures_open: u64,
    /// smallest depth fully covered among closures that did not close
    pub min_open_depth: Option<usize>,
    pub oracle_evals: u64,
    pub skipped_configs: u64,
    pub outputs: HashSet<u64>,
    pub extra: BTreeMap<String, u64>,
    /// a few complete operation sequences this run actually executed
    pub sample_traces: Vec<Vec<f64>>,
}

impl Stats {
    pub fn merge(&mut self, o: Stats) {
        self.states += o.states;
        self.transitions += o.transitions;
        self.traces += o.traces;
        self.max_depth = self.max_depth.max(o.max_depth);
        self.configs += o.configs;
        self.closures_closed += o.closures_closed;
        self.closures_open += o.closures_open;
        self.min_open_depth = match (self.min_open_depth, o.min_open_depth) {
            (Some(a), Some(b)) => Some(a.min(b)),
            (a, b) => a.or(b),
        };
        self.oracle_evals += o.oracle_evals;
        self.skipped_configs += o.skipped_configs;
        if self.outputs.len() < 200_000 {
            self.outputs.extend(o.outputs);
        }
        for (k, v) in o.extra {
            *self.extra.entry(k).or_insert(0) += v;
        }
        for t in o.sample_traces {
            if self.sample_traces.len() < 8 {
                self.sample_traces.push(t);
            }
        }
    }
    pub fn out(&mut self, x: Option<f64>) {
        if self.outputs.len() < 50_000 {
            self.outputs.insert(match x {
                None => u64::MAX,
                Some(v) => v.to_bits(),
            });
        }
    }
    pub fn bump(&mut self, k: &str, by: u64) {
        *self.extra.entry(k.to_string()).or_insert(0) += by;
    }
}

pub struct CheckOutput {
    pub stats: Stats,
    pub violations: Vec<Violation>,
    pub samples: Vec<Value>,
    pub rule: String,
    pub assumptions: Vec<String>,
    pub exhaustive: bool,
    pub bounds: Value,
}

/// Sort, match against known findings, write replays, print lines, write evidence.
/// Returns the process exit code.
pub fn finish(property: &str, tier: &str, seed: u64, wall_s: f64, mut out: CheckOutput) -> i32 {
    let root = verif_root();
    let known = load_known(&root);
    out.violations.sort_by(|a, b| {
        (a.kind.as_str(), a.clause.as_str(), a.scalar.as_str(), a.n, a.ops.len(), a.view.as_str())
            .partial_cmp(&(b.kind.as_str(), b.clause.as_str(), b.scalar.as_str(), b.n, b.ops.len(), b.view.as_str()))
            .unwrap()
            .then_with(|| format!("{:?}", a.ops).cmp(&format!("{:?}", b.ops)))
    });
    out.violations.dedup_by(|a, b| a.view == b.view && a.clause == b.clause && a.scalar == b.scalar && a.profile == b.profile && a.ops == b.ops);
    let replay_dir = root.join("replays");
    let _ = std::fs::create_dir_all(&replay_dir);
    // remove stale replays of this property
    if let Ok(rd) = std::fs::read_dir(&replay_dir) {
        for e in rd.flatten() {
            if e.file_name().to_string_lossy().starts_with(&format!("{}-", property)) {
                let _ = std::fs::remove_file(e.path());
            }
        }
    }
    let mut known_hit: BTreeMap<String, (usize, Violation)> = BTreeMap::new();
    let mut fresh: Vec<Violation> = vec![];
    for v in &out.violations {
        if let Some(k) = known.iter().find(|k| k.matches(v)) {
            let e = known_hit.entry(k.id.clone()).or_insert((0, v.clone()));
            e.0 += 1;
        } else {
            fresh.push(v.clone());
        }
    }
    for k in &known {
        if let Some((cnt, v)) = known_hit.get(&k.id) {
            if std::env::var("VERIF_WRITE_WITNESS").is_ok() {
                if let Some(w) = &k.witness {
                    // developer aid: (re)write the committed witness replay of a listed finding
                    let body = crate::replay::make_replay_file(v);
                    std::fs::write(root.join(w), serde_json::to_string_pretty(&body).unwrap()).expect("write witness");
                }
            }
            println!(
                "KNOWN-FINDING: property={} {} clause={} {} ({} matching violation(s) this run; e.g. {} on {}; witness={})",
                property,
                k.kind,
                k.clause,
                k.what,
                cnt,
                v.view,
                show_ops(&v.ops),
                k.witness.clone().unwrap_or_default()
            );
        }
    }
    // at most 3 replays per (kind, clause, scalar)
    let mut per_group: BTreeMap<(String, String, String), usize> = BTreeMap::new();
    let mut written = 0usize;
    let mut replay_paths = vec![];
    for v in &fresh {
        let c = per_group.entry(v.group()).or_insert(0);
        *c += 1;
        if *c > 2 || written >= 60 {
            continue;
        }
        written += 1;
        let path = replay_dir.join(format!("{}-{}.json", property, written));
        let body = crate::replay::make_replay_file(v);
        std::fs::write(&path, serde_json::to_string_pretty(&body).unwrap()).expect("write replay");
        // replay twice and require identical observations before reporting
        let det = crate::replay::deterministic(v);
        println!(
            "VIOLATION property={} replay={} view={} clause={} scalar={} profile={} ops={} :: {}{}",
            property,
            path.display(),
            v.view,
            v.clause,
            v.scalar,
            v.profile,
            show_ops(&v.ops),
            v.detail,
            if det { "" } else { " [NON-DETERMINISTIC REPLAY]" }
        );
        replay_paths.push(path.display().to_string());
    }
    let suppressed = fresh.len() - written;
    if suppressed > 0 {
        println!("({} further violation(s) in already-reported (view, clause) groups not printed)", suppressed);
    }
    let s = &out.stats;
    for t in &s.sample_traces {
        out.samples.push(json!({"executed_operation_sequence": t}));
    }
    let mut coverage = json!({
        "states": s.states,
        "transitions": s.transitions,
        "traces_validated_against_impl": s.traces,
        "samples": out.samples,
        "exhaustive": out.exhaustive,
        "rule": out.rule,
        "configs": s.configs,
        "skipped_configs": s.skipped_configs,
        "max_depth": s.max_depth,
        "oracle_evaluations": s.oracle_evals,
        "distinct_outputs": s.outputs.len(),
        "closures_closed": s.closures_closed,
        "closures_capped": s.closures_open,
        "bounds": out.bounds,
        "known_findings_matched": known_hit.iter().map(|(k, v)| json!({"id": k, "violations": v.0})).collect::<Vec<_>>(),
        "replays": replay_paths,
    });
    if let Some(d) = s.min_open_depth {
        coverage["capped_closure_min_depth_fully_covered"] = json!(d);
    }
    for (k, v) in &s.extra {
        coverage[k] = json!(v);
    }
    let ev = json!({
        "property_id": property,
        "tier": tier,
        "seed": seed,
        "level": "model_checking",
        "coverage": coverage,
        "assumptions": out.assumptions,
        "wall_s": wall_s,
        "violations": fresh.len(),
        "profile": crate::PROFILE,
    });
    let ev_dir = root.join("evidence");
    let _ = std::fs::create_dir_all(&ev_dir);
    std::fs::write(ev_dir.join(format!("{}.json", property)), serde_json::to_string_pretty(&ev).unwrap())
        .expect("write evidence");
    println!(
        "{} {} [{}]: configs={} states={} transitions={} traces={} distinct_outputs={} closed={}/{} violations={} known={} wall={:.1}s",
        property,
        tier,
        crate::PROFILE,
        s.configs,
        s.states,
        s.transitions,
        s.traces,
        s.outputs.len(),
        s.closures_closed,
        s.closures_closed + s.closures_open,
        fresh.len(),
        known_hit.len(),
        wall_s
    );
    if fresh.is_empty() {
        0
    } else {
        1
    }
}

pub fn emit_partial(path: &str, out: &CheckOutput) {
    let s = &out.stats;
    let v = json!({
        "states": s.states, "transitions": s.transitions, "traces": s.traces, "configs": s.configs,
        "max_depth": s.max_depth, "oracle_evals": s.oracle_evals, "skipped_configs": s.skipped_configs,
        "outputs": s.outputs.len(), "extra": s.extra,
        "violations": out.violations, "samples": out.samples, "profile": crate::PROFILE,
    });
    std::fs::write(path, serde_json::to_string(&v).unwrap()).expect("write partial");
}

/// merge the output another profile's binary wrote with --emit
pub fn merge_partial(path: &std::path::Path, out: &mut CheckOutput) {
    let s = std::fs::read_to_string(path).expect("partial output exists");
    let v: Value = serde_json::from_str(&s).expect("partial output parses");
    let g = |k: &str| v[k].as_u64().unwrap_or(0);
    out.stats.states += g("states");
    out.stats.transitions += g("transitions");
    out.stats.traces += g("traces");
    out.stats.configs += g("configs");
    out.stats.oracle_evals += g("oracle_evals");
    out.stats.skipped_configs += g("skipped_configs");
    out.stats.bump(&format!("states_under_{}", v["profile"].as_str().unwrap_or("other")), g("states"));
    let viols: Vec<Violation> = serde_json::from_value(v["violations"].clone()).expect("violations");
    out.violations.extend(viols);
    let _ = std::fs::remove_file(path);
}
