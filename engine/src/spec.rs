//! `Spec`: a serialisable description of a tree of views, and `build`, which
//! constructs the *real* generic structs of the repository from it, with inner
//! type `Dyn<T>` (a boxed trait object that delegates to the real struct).

use crate::scalar::Scalar;
use serde::{Deserialize, Serialize};
use sliding_features::pure_functions::*;
use sliding_features::rolling::*;
use sliding_features::sliding_windows::*;
use sliding_features::View;
use std::cell::RefCell;
use std::fmt::{self, Debug};

#[derive(Clone, Copy, Debug, PartialEq, Eq, Hash, Serialize, Deserialize, PartialOrd, Ord)]
pub enum Kind {
    // harness leaves
    Probe,
    Never,
    // pure functions
    Echo,
    Constant,
    Add,
    Subtract,
    Multiply,
    Divide,
    GTE,
    LTE,
    Tanh,
    // sliding windows
    Sma,
    Ema,
    EmaAlpha,
    Alma,
    AlmaCustom,
    Cumulative,
    Min,
    Max,
    Roc,
    WelfordOnline,
    Vst,
    Vsct,
    HLNormalizer,
    BinaryEntropy,
    CenterOfGravity,
    Cti,
    Net,
    Rsi,
    MyRsi,
    Pfe,
    Eft,
    LaguerreFilter,
    LaguerreRsi,
    SuperSmoother,
    Roofing,
    CyberCycle,
    TrendFlex,
    ReFlex,
    // rolling
    WelfordRolling,
    Drawdown,
    LnReturn,
}

#[derive(Clone, Debug, PartialEq, Serialize, Deserialize)]
pub struct Spec {
    pub kind: Kind,
    #[serde(default)]
    pub n: usize,
    #[serde(default)]
    pub m: usize,
    #[serde(default)]
    pub p: Vec<f64>,
    #[serde(default)]
    pub ch: Vec<Spec>,
}

impl Spec {
    pub fn leaf(kind: Kind) -> Spec {
        Spec { kind, n: 0, m: 0, p: vec![], ch: vec![] }
    }
    pub fn echo() -> Spec {
        Spec::leaf(Kind::Echo)
    }
    pub fn never() -> Spec {
        Spec::leaf(Kind::Never)
    }
    pub fn constant(c: f64) -> Spec {
        Spec { kind: Kind::Constant, n: 0, m: 0, p: vec![c], ch: vec![] }
    }
    pub fn un(kind: Kind, n: usize, child: Spec) -> Spec {
        Spec { kind, n, m: 0, p: vec![], ch: vec![child] }
    }
    pub fn unp(kind: Kind, n: usize, p: Vec<f64>, child: Spec) -> Spec {
        Spec { kind, n, m: 0, p, ch: vec![child] }
    }
    pub fn bin(kind: Kind, a: Spec, b: Spec) -> Spec {
        Spec { kind, n: 0, m: 0, p: vec![], ch: vec![a, b] }
    }
    pub fn roofing(n: usize, m: usize, child: Spec) -> Spec {
        Spec { kind: Kind::Roofing, n, m, p: vec![], ch: vec![child] }
    }
    /// PFE / EFT: ch[0] = input view, ch[1] = moving average (over Echo)
    pub fn with_ma(kind: Kind, n: usize, child: Spec, ma: Spec) -> Spec {
        Spec { kind, n, m: 0, p: vec![], ch: vec![child, ma] }
    }
    /// number of children that receive the raw input of this node
    pub fn input_children(&self) -> usize {
        match self.kind {
            Kind::Pfe | Kind::Eft => 1,
            _ => self.ch.len(),
        }
    }
    /// Replace the input leaf/leaves (Echo) by `leaf`.
    pub fn with_leaf(&self, leaf: &Spec) -> Spec {
        if self.ch.is_empty() {
            return if self.kind == Kind::Echo { leaf.clone() } else { self.clone() };
        }
        let mut s = self.clone();
        for i in 0..self.input_children() {
            s.ch[i] = self.ch[i].with_leaf(leaf);
        }
        s
    }
    /// Replace every Echo on the input path by a Probe with consecutive ids.
    pub fn with_probes(&self) -> (Spec, usize) {
        fn go(s: &Spec, next: &mut usize) -> Spec {
            if s.ch.is_empty() {
                if s.kind == Kind::Echo {
                    let mut p = Spec::leaf(Kind::Probe);
                    p.n = *next;
                    *next += 1;
                    return p;
                }
                return s.clone();
            }
            let mut o = s.clone();
            for i in 0..s.input_children() {
                o.ch[i] = go(&s.ch[i], next);
            }
            o
        }
        let mut next = 0;
        let s = go(self, &mut next);
        (s, next)
    }
    pub fn name(&self) -> String {
        let mut args: Vec<String> = vec![];
        let has_n = !matches!(
            self.kind,
            Kind::Probe
                | Kind::Never
                | Kind::Echo
                | Kind::Constant
                | Kind::Add
                | Kind::Subtract
                | Kind::Multiply
                | Kind::Divide
                | Kind::GTE
                | Kind::LTE
                | Kind::Tanh
                | Kind::LaguerreFilter
                | Kind::WelfordRolling
                | Kind::Drawdown
                | Kind::LnReturn
        );
        if has_n {
            args.push(format!("{}", self.n));
        }
        if self.kind == Kind::Roofing {
            args.push(format!("{}", self.m));
        }
        for p in &self.p {
            args.push(format!("{}", p));
        }
        for c in &self.ch {
            args.push(c.name());
        }
        if args.is_empty() {
            format!("{:?}", self.kind)
        } else {
            format!("{:?}({})", self.kind, args.join(","))
        }
    }
    /// the outermost kind's name
    pub fn kind_name(&self) -> String {
        format!("{:?}", self.kind)
    }
    pub fn total_n(&self) -> usize {
        self.n + self.m + self.ch.iter().map(|c| c.total_n()).sum::<usize>()
    }
    pub fn depth(&self) -> usize {
        1 + self.ch.iter().map(|c| c.depth()).max().unwrap_or(0)
    }
}

// ---------------------------------------------------------------------------

pub trait DynView<T: Scalar> {
    fn update(&mut self, v: T);
    fn last(&self) -> Option<T>;
    fn clone_box(&self) -> Box<dyn DynView<T>>;
    fn dbg(&self, f: &mut fmt::Formatter<'_>) -> fmt::Result;
    /// (mean, variance) accessors of the Welford views
    fn aux(&self) -> Option<(T, T)> {
        None
    }
}

pub struct Dyn<T: Scalar>(pub Box<dyn DynView<T>>);

impl<T: Scalar> Dyn<T> {
    pub fn aux(&self) -> Option<(T, T)> {
        self.0.aux()
    }
    pub fn key(&self) -> String {
        format!("{:?}", self)
    }
}
impl<T: Scalar> Clone for Dyn<T> {
    fn clone(&self) -> Self {
        Dyn(self.0.clone_box())
    }
}
impl<T: Scalar> fmt::Debug for Dyn<T> {
    fn fmt(&self, f: &mut fmt::Formatter<'_>) -> fmt::Result {
        self.0.dbg(f)
    }
}
impl<T: Scalar> View<T> for Dyn<T> {
    #[inline]
    fn update(&mut self, v: T) {
        self.0.update(v)
    }
    #[inline]
    fn last(&self) -> Option<T> {
        self.0.last()
    }
}

/// adapter for every real struct that is `View + Clone + Debug`
struct Plain<V>(V);
impl<T: Scalar, V: View<T> + Clone + fmt::Debug + 'static> DynView<T> for Plain<V> {
    fn update(&mut self, v: T) {
        self.0.update(v)
    }
    fn last(&self) -> Option<T> {
        self.0.last()
    }
    fn clone_box(&self) -> Box<dyn DynView<T>> {
        Box::new(Plain(self.0.clone()))
    }
    fn dbg(&self, f: &mut fmt::Formatter<'_>) -> fmt::Result {
        self.0.fmt(f)
    }
}

struct WoNode<T: Scalar>(WelfordOnline<T, Dyn<T>>);
impl<T: Scalar> DynView<T> for WoNode<T> {
    fn update(&mut self, v: T) {
        self.0.update(v)
    }
    fn last(&self) -> Option<T> {
        self.0.last()
    }
    fn clone_box(&self) -> Box<dyn DynView<T>> {
        Box::new(WoNode(self.0.clone()))
    }
    fn dbg(&self, f: &mut fmt::Formatter<'_>) -> fmt::Result {
        self.0.fmt(f)
    }
    fn aux(&self) -> Option<(T, T)> {
        Some((self.0.mean(), self.0.variance()))
    }
}

struct WrNode<T: Scalar>(WelfordRolling<T, Dyn<T>>);
impl<T: Scalar> DynView<T> for WrNode<T> {
    fn update(&mut self, v: T) {
        self.0.update(v)
    }
    fn last(&self) -> Option<T> {
        self.0.last()
    }
    fn clone_box(&self) -> Box<dyn DynView<T>> {
        Box::new(WrNode(self.0.clone()))
    }
    fn dbg(&self, f: &mut fmt::Formatter<'_>) -> fmt::Result {
        self.0.fmt(f)
    }
    fn aux(&self) -> Option<(T, T)> {
        Some((self.0.mean(), self.0.variance()))
    }
}

/// `Add` does not derive `Clone`: a "clone" is a twin rebuilt from the spec
/// and replayed over the values this node was handed.
struct AddNode<T: Scalar> {
    inner: Add<T, Dyn<T>, Dyn<T>>,
    a: Spec,
    b: Spec,
    hist: Vec<T>,
}
thread_local! {
    /// C18 measures heap usage: there the harness must not keep the replay history
    pub static ADD_KEEPS_HISTORY: std::cell::Cell<bool> = const { std::cell::Cell::new(true) };
}
impl<T: Scalar> DynView<T> for AddNode<T> {
    fn update(&mut self, v: T) {
        if ADD_KEEPS_HISTORY.with(|c| c.get()) {
            self.hist.push(v);
        }
        self.inner.update(v)
    }
    fn last(&self) -> Option<T> {
        self.inner.last()
    }
    fn clone_box(&self) -> Box<dyn DynView<T>> {
        assert!(ADD_KEEPS_HISTORY.with(|c| c.get()), "Add twin needs its history");
        let mut inner = Add::new(build::<T>(&self.a), build::<T>(&self.b));
        for v in &self.hist {
            inner.update(*v);
        }
        Box::new(AddNode { inner, a: self.a.clone(), b: self.b.clone(), hist: self.hist.clone() })
    }
    fn dbg(&self, f: &mut fmt::Formatter<'_>) -> fmt::Result {
        self.inner.fmt(f)
    }
}

// harness leaves -------------------------------------------------------------

thread_local! {
    /// (probe id, bits of value as f64) for every `update` a Probe receives
    pub static PROBE_EVENTS: RefCell<Vec<(u32, u64)>> = const { RefCell::new(Vec::new()) };
}
pub fn probe_events_clear() {
    PROBE_EVENTS.with(|e| e.borrow_mut().clear());
}
pub fn probe_events_take() -> Vec<(u32, u64)> {
    PROBE_EVENTS.with(|e| std::mem::take(&mut *e.borrow_mut()))
}

#[derive(Clone, Debug)]
struct Probe<T> {
    id: u32,
    out: Option<T>,
}
impl<T: Scalar> View<T> for Probe<T> {
    fn update(&mut self, v: T) {
        PROBE_EVENTS.with(|e| e.borrow_mut().push((self.id, v.f().to_bits())));
        self.out = Some(v);
    }
    fn last(&self) -> Option<T> {
        self.out
    }
}

#[derive(Clone, Debug)]
struct Never;
impl<T: Scalar> View<T> for Never {
    fn update(&mut self, _v: T) {}
    fn last(&self) -> Option<T> {
        None
    }
}

fn plain<T: Scalar, V: View<T> + Clone + fmt::Debug + 'static>(v: V) -> Dyn<T> {
    Dyn(Box::new(Plain(v)))
}

/// Build the real views. Panics if a constructor rejects its parameters.
pub fn build<T: Scalar>(s: &Spec) -> Dyn<T> {
    let c = |i: usize| build::<T>(&s.ch[i]);
    let p = |i: usize| T::of(s.p[i]);
    let n = s.n;
    match s.kind {
        Kind::Probe => plain(Probe::<T> { id: s.n as u32, out: None }),
        Kind::Never => plain::<T, _>(Never),
        Kind::Echo => plain(Echo::<T>::new()),
        Kind::Constant => plain(Constant::<T>::new(p(0))),
        Kind::Add => Dyn(Box::new(AddNode {
            inner: Add::new(c(0), c(1)),
            a: s.ch[0].clone(),
            b: s.ch[1].clone(),
            hist: vec![],
        })),
        Kind::Subtract => plain(Subtract::new(c(0), c(1))),
        Kind::Multiply => plain(Multiply::new(c(0), c(1))),
        Kind::Divide => plain(Divide::new(c(0), c(1))),
        Kind::GTE => plain(GTE::new(c(0), p(0))),
        Kind::LTE => plain(LTE::new(c(0), p(0))),
        Kind::Tanh => plain(Tanh::new(c(0))),
        Kind::Sma => plain(Sma::new(c(0), n)),
        Kind::Ema => plain(Ema::new(c(0), n)),
        Kind::EmaAlpha => plain(Ema::with_alpha(c(0), n, p(0))),
        Kind::Alma => plain(Alma::new(c(0), n)),
        Kind::AlmaCustom => plain(Alma::new_custom(c(0), n, p(0), p(1))),
        Kind::Cumulative => plain(Cumulative::new(c(0), n)),
        Kind::Min => plain(Min::new(c(0), n)),
        Kind::Max => plain(Max::new(c(0), n)),
        Kind::Roc => plain(Roc::new(c(0), n)),
        Kind::WelfordOnline => Dyn(Box::new(WoNode(WelfordOnline::new(c(0), n)))),
        Kind::Vst => plain(Vst::new(c(0), n)),
        Kind::Vsct => plain(Vsct::new(c(0), n)),
        Kind::HLNormalizer => plain(HLNormalizer::new(c(0), n)),
        Kind::BinaryEntropy => plain(BinaryEntropy::new(c(0), n)),
        Kind::CenterOfGravity => plain(CenterOfGravity::new(c(0), n)),
        Kind::Cti => plain(CorrelationTrendIndicator::new(c(0), n)),
        Kind::Net => plain(NoiseEliminationTechnology::new(c(0), n)),
        Kind::Rsi => plain(Rsi::new(c(0), n)),
        Kind::MyRsi => plain(MyRSI::new(c(0), n)),
        Kind::Pfe => plain(PolarizedFractalEfficiency::new(c(0), c(1), n)),
        Kind::Eft => plain(EhlersFisherTransform::new(c(0), c(1), n)),
        Kind::LaguerreFilter => plain(LaguerreFilter::new(c(0), p(0))),
        Kind::LaguerreRsi => plain(LaguerreRSI::new(c(0), n)),
        Kind::SuperSmoother => plain(SuperSmoother::new(c(0), n)),
        Kind::Roofing => plain(RoofingFilter::new(c(0), n, s.m)),
        Kind::CyberCycle => plain(CyberCycle::new(c(0), n)),
        Kind::TrendFlex => plain(TrendFlex::new(c(0), n)),
        Kind::ReFlex => plain(ReFlex::new(c(0), n)),
        Kind::WelfordRolling => Dyn(Box::new(WrNode(WelfordRolling::new(c(0))))),
        Kind::Drawdown => plain(Drawdown::new(c(0))),
        Kind::LnReturn => plain(LnReturn::new(c(0))),
    }
}

// ---------------------------------------------------------------------------
// Catalogue

#[derive(Clone, Debug)]
pub struct Entry {
    pub kind: Kind,
    /// takes a window length
    pub has_n: bool,
    /// smallest N from which the documented equations are meaningful
    pub min_n: usize,
    /// input must be strictly positive
    pub positive_domain: bool,
    /// output > 0 whenever all inputs > 0
    pub positive_preserving: bool,
}

fn e(kind: Kind, has_n: bool, min_n: usize, pd: bool, pp: bool) -> Entry {
    Entry { kind, has_n, min_n, positive_domain: pd, positive_preserving: pp }
}

/// every unary wrapper of the public API (one view child fed the raw input)
pub fn unary_catalogue() -> Vec<Entry> {
    use Kind::*;
    vec![
        e(GTE, false, 1, false, false),
        e(LTE, false, 1, false, false),
        e(Tanh, false, 1, false, true),
        e(Sma, true, 1, false, true),
        e(Ema, true, 1, false, true),
        e(EmaAlpha, true, 1, false, true),
        e(Alma, true, 1, false, true),
        e(AlmaCustom, true, 1, false, true),
        e(Cumulative, true, 1, false, true),
        e(Min, true, 1, false, true),
        e(Max, true, 1, false, true),
        e(Roc, true, 1, false, false),
        e(WelfordOnline, true, 1, false, false),
        e(Vst, true, 1, false, false),
        e(Vsct, true, 1, false, false),
        e(HLNormalizer, true, 1, false, false),
        e(BinaryEntropy, true, 1, false, false),
        e(CenterOfGravity, true, 1, false, false),
        e(Cti, true, 3, false, false),
        e(Net, true, 3, false, false),
        e(Rsi, true, 1, false, false),
        e(MyRsi, true, 1, false, false),
        e(Pfe, true, 3, false, false),
        e(Eft, true, 2, false, false),
        e(LaguerreFilter, false, 1, false, true),
        e(LaguerreRsi, true, 1, false, false),
        e(SuperSmoother, true, 1, false, false),
        e(Roofing, true, 2, false, false),
        e(CyberCycle, true, 1, false, false),
        e(TrendFlex, true, 3, false, false),
        e(ReFlex, true, 3, false, false),
        e(WelfordRolling, false, 1, false, false),
        e(Drawdown, false, 1, true, false),
        e(LnReturn, false, 1, true, false),
    ]
}

pub fn entry(kind: Kind) -> Entry {
    unary_catalogue().into_iter().find(|e| e.kind == kind).unwrap_or(Entry {
        kind,
        has_n: false,
        min_n: 1,
        positive_domain: false,
        positive_preserving: matches!(kind, Kind::Echo | Kind::Probe),
    })
}

/// Default instantiation of a unary wrapper kind over `child` with window `n`
/// (secondary parameters at their catalogue defaults).
pub fn mk(kind: Kind, n: usize, child: Spec) -> Spec {
    use Kind::*;
    match kind {
        GTE => Spec::unp(GTE, 0, vec![0.5], child),
        LTE => Spec::unp(LTE, 0, vec![0.5], child),
        EmaAlpha => Spec::unp(EmaAlpha, n, vec![1.0], child),
        AlmaCustom => Spec::unp(AlmaCustom, n, vec![4.0, 0.5], child),
        LaguerreFilter => Spec::unp(LaguerreFilter, 0, vec![0.5], child),
        Roofing => Spec::roofing(n, 2, child),
        Pfe => Spec::with_ma(Pfe, n, child, Spec::un(Sma, 2, Spec::echo())),
        Eft => Spec::with_ma(Eft, n, child, Spec::un(Ema, 2, Spec::echo())),
        Tanh | WelfordRolling | Drawdown | LnReturn => Spec::un(kind, 0, child),
        k => Spec::un(k, n, child),
    }
}

pub const BINARY: [Kind; 4] = [Kind::Add, Kind::Subtract, Kind::Multiply, Kind::Divide];
