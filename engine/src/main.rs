#![allow(dead_code)]
//! sfmc — explicit-state model checking of `sliding_features` (see /verif/DESIGN.md)

mod alloc;
mod alpha;
mod catalogue;
mod checks;
mod explore;
mod lo;
mod q;
mod refs;
mod refs_ehlers;
mod replay;
mod report;
mod scalar;
mod spec;
mod static_zoo;

#[cfg(debug_assertions)]
pub const PROFILE: &str = "checked";
#[cfg(not(debug_assertions))]
pub const PROFILE: &str = "release";

#[derive(Clone, Copy, PartialEq, Eq, Debug)]
pub enum Tier {
    Quick,
    Thorough,
}

pub struct Ctx {
    pub tier: Tier,
    pub seed: u64,
}

fn usage() -> ! {
    eprintln!("usage: sfmc check <C01..C18> [--tier quick|thorough] [--emit <file>] | sfmc replay <file>");
    std::process::exit(2)
}

fn main() {
    explore::install_panic_hook();
    let args: Vec<String> = std::env::args().collect();
    if args.len() < 3 {
        usage();
    }
    match args[1].as_str() {
        "replay" => {
            std::process::exit(replay::replay_file(&args[2]));
        }
        "check" => {
            let id = args[2].clone();
            let mut tier = match std::env::var("VERIF_TIER").as_deref() {
                Ok("thorough") => Tier::Thorough,
                _ => Tier::Quick,
            };
            let mut emit: Option<String> = None;
            let mut i = 3;
            while i < args.len() {
                match args[i].as_str() {
                    "--tier" => {
                        i += 1;
                        tier = match args.get(i).map(|s| s.as_str()) {
                            Some("quick") => Tier::Quick,
                            Some("thorough") => Tier::Thorough,
                            _ => usage(),
                        };
                    }
                    "--emit" => {
                        i += 1;
                        emit = args.get(i).cloned();
                    }
                    _ => usage(),
                }
                i += 1;
            }
            let seed: u64 = std::env::var("VERIF_SEED").ok().and_then(|s| s.parse().ok()).unwrap_or(0);
            let threads: usize = std::env::var("VERIF_THREADS").ok().and_then(|s| s.parse().ok()).unwrap_or(16);
            rayon::ThreadPoolBuilder::new().num_threads(threads).stack_size(64 << 20).build_global().unwrap();
            // watchdog: a safety net only (exit 2 = machinery error, never a verdict)
            let limit = match tier {
                Tier::Quick => 600,
                Tier::Thorough => 3 * 3600,
            };
            std::thread::spawn(move || {
                std::thread::sleep(std::time::Duration::from_secs(limit));
                eprintln!("MACHINERY ERROR: watchdog fired after {} s", limit);
                std::process::exit(2);
            });
            if let Err(e) = q::self_test().and_then(|_| lo::self_test()).and_then(|_| refs::self_test()) {
                eprintln!("MACHINERY ERROR: {}", e);
                std::process::exit(2);
            }
            let ctx = Ctx { tier, seed };
            let t0 = std::time::Instant::now();
            let out = match checks::run(&id, &ctx) {
                Some(o) => o,
                None => {
                    eprintln!("unknown property {}", id);
                    std::process::exit(2);
                }
            };
            let wall = t0.elapsed().as_secs_f64();
            let tier_s = if tier == Tier::Quick { "quick" } else { "thorough" };
            if let Some(path) = emit {
                report::emit_partial(&path, &out);
                std::process::exit(0);
            }
            std::process::exit(report::finish(&id, tier_s, seed, wall, out));
        }
        _ => usage(),
    }
}
