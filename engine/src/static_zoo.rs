//! Statically typed compositions (no type erasure between outer and inner view).
//!
//! `Dyn` (spec.rs) forwards only `update` and `last`; whatever an outer view might obtain from its
//! inner view through another trait method is invisible behind it. Here every unary wrapper of the
//! catalogue is instantiated directly over each of eleven representative inner views, so that the
//! outer struct holds the inner struct by value exactly as user code would.

use crate::spec::Kind;
use sliding_features::pure_functions::*;
use sliding_features::rolling::*;
use sliding_features::sliding_windows::*;
use sliding_features::View;

pub trait Obs {
    fn upd(&mut self, x: f64);
    fn get(&self) -> Option<f64>;
}
impl<V: View<f64>> Obs for V {
    fn upd(&mut self, x: f64) {
        self.update(x)
    }
    fn get(&self) -> Option<f64> {
        self.last()
    }
}

/// the outer view `$ok` with window `$n` built directly over the expression `$inner`
macro_rules! outer_over {
    ($inner:expr, $ok:expr, $n:expr) => {{
        let n: usize = $n;
        let e = || Echo::<f64>::new();
        let b: Option<Box<dyn Obs>> = match $ok {
            Kind::GTE => Some(Box::new(GTE::new($inner, 0.5))),
            Kind::LTE => Some(Box::new(LTE::new($inner, 0.5))),
            Kind::Tanh => Some(Box::new(Tanh::new($inner))),
            Kind::Sma => Some(Box::new(Sma::new($inner, n))),
            Kind::Ema => Some(Box::new(Ema::new($inner, n))),
            Kind::EmaAlpha => Some(Box::new(Ema::with_alpha($inner, n, 1.0))),
            Kind::Alma => Some(Box::new(Alma::new($inner, n))),
            Kind::AlmaCustom => Some(Box::new(Alma::new_custom($inner, n, 4.0, 0.5))),
            Kind::Cumulative => Some(Box::new(Cumulative::new($inner, n))),
            Kind::Min => Some(Box::new(Min::new($inner, n))),
            Kind::Max => Some(Box::new(Max::new($inner, n))),
            Kind::Roc => Some(Box::new(Roc::new($inner, n))),
            Kind::WelfordOnline => Some(Box::new(WelfordOnline::new($inner, n))),
            Kind::Vst => Some(Box::new(Vst::new($inner, n))),
            Kind::Vsct => Some(Box::new(Vsct::new($inner, n))),
            Kind::HLNormalizer => Some(Box::new(HLNormalizer::new($inner, n))),
            Kind::BinaryEntropy => Some(Box::new(BinaryEntropy::new($inner, n))),
            Kind::CenterOfGravity => Some(Box::new(CenterOfGravity::new($inner, n))),
            Kind::Cti => Some(Box::new(CorrelationTrendIndicator::new($inner, n))),
            Kind::Net => Some(Box::new(NoiseEliminationTechnology::new($inner, n))),
            Kind::Rsi => Some(Box::new(Rsi::new($inner, n))),
            Kind::MyRsi => Some(Box::new(MyRSI::new($inner, n))),
            Kind::Pfe => Some(Box::new(PolarizedFractalEfficiency::new($inner, Sma::new(e(), 2), n.max(3)))),
            Kind::Eft => Some(Box::new(EhlersFisherTransform::new($inner, Ema::new(e(), 2), n))),
            Kind::LaguerreFilter => Some(Box::new(LaguerreFilter::new($inner, 0.5))),
            Kind::LaguerreRsi => Some(Box::new(LaguerreRSI::new($inner, n))),
            Kind::SuperSmoother => Some(Box::new(SuperSmoother::new($inner, n))),
            Kind::Roofing => Some(Box::new(RoofingFilter::new($inner, n.max(2), 2))),
            Kind::CyberCycle => Some(Box::new(CyberCycle::new($inner, n))),
            Kind::TrendFlex => Some(Box::new(TrendFlex::new($inner, n))),
            Kind::ReFlex => Some(Box::new(ReFlex::new($inner, n))),
            Kind::WelfordRolling => Some(Box::new(WelfordRolling::new($inner))),
            Kind::Drawdown => Some(Box::new(Drawdown::new($inner))),
            Kind::LnReturn => Some(Box::new(LnReturn::new($inner))),
            _ => None,
        };
        b
    }};
}

pub const INNER_KINDS: [Kind; 10] = [Kind::Sma, Kind::Ema, Kind::Roc, Kind::Cumulative, Kind::Min, Kind::HLNormalizer, Kind::SuperSmoother, Kind::WelfordOnline, Kind::GTE, Kind::Vst];

/// outer(inner(Echo)) with no erasure in between; None for kinds outside the static set
pub fn chain(ok: Kind, no: usize, ik: Kind, ni: usize) -> Option<Box<dyn Obs>> {
    let e = || Echo::<f64>::new();
    match ik {
        Kind::Sma => outer_over!(Sma::new(e(), ni), ok, no),
        Kind::Ema => outer_over!(Ema::new(e(), ni), ok, no),
        Kind::Roc => outer_over!(Roc::new(e(), ni), ok, no),
        Kind::Cumulative => outer_over!(Cumulative::new(e(), ni), ok, no),
        Kind::Min => outer_over!(Min::new(e(), ni), ok, no),
        Kind::HLNormalizer => outer_over!(HLNormalizer::new(e(), ni), ok, no),
        Kind::SuperSmoother => outer_over!(SuperSmoother::new(e(), ni), ok, no),
        Kind::WelfordOnline => outer_over!(WelfordOnline::new(e(), ni), ok, no),
        Kind::GTE => outer_over!(GTE::new(e(), 0.5), ok, no),
        Kind::Vst => outer_over!(Vst::new(e(), ni), ok, no),
        _ => None,
    }
}

/// a single view over Echo, statically typed
pub fn single(k: Kind, n: usize) -> Option<Box<dyn Obs>> {
    outer_over!(Echo::<f64>::new(), k, n)
}
