//! C18 — bounded memory: state size does not grow with stream length.

use crate::alloc;
use crate::catalogue::*;
use crate::explore::{cycles, guard, run_jobs, Job, JobOut};
use crate::report::{CheckOutput, Sink, Stats, Violation};
use crate::scalar::Scalar;
use crate::spec::{build, unary_catalogue, Spec};
use crate::{Ctx, Tier};
use serde_json::json;
use sliding_features::View;

/// (number of numeric literals, number of `None`s) in a Debug rendering:
/// the number of scalar slots the whole tree of views currently holds.
pub fn slots(dbg: &str) -> (usize, usize) {
    let b = dbg.as_bytes();
    let mut i = 0;
    let mut n = 0;
    while i < b.len() {
        let c = b[i];
        let prev_ident = i > 0 && (b[i - 1].is_ascii_alphanumeric() || b[i - 1] == b'_');
        let starts = c.is_ascii_digit() || (c == b'-' && i + 1 < b.len() && b[i + 1].is_ascii_digit());
        if starts && !prev_ident {
            n += 1;
            i += 1;
            while i < b.len() && (b[i].is_ascii_digit() || matches!(b[i], b'.' | b'e' | b'E' | b'+' | b'-' | b'/')) {
                i += 1;
            }
        } else {
            i += 1;
        }
    }
    (n, dbg.matches("None").count() + dbg.matches("NaN").count() + dbg.matches("inf").count())
}

/// input at step i of driver d: the cycles first, then aperiodic drivers (a strictly rising
/// run, a strictly falling one, a sawtooth whose extremes move, quadratic residues), so that
/// growth that only happens on monotone runs or when an extremum changes is exercised too
fn drivers(spec: &Spec, max_period: usize) -> Vec<Box<dyn Fn(usize) -> f64 + Send + Sync>> {
    let mut v: Vec<Box<dyn Fn(usize) -> f64 + Send + Sync>> = vec![];
    for cyc in cycles(&alphabet(spec), max_period) {
        v.push(Box::new(move |i| cyc[i % cyc.len()]));
    }
    let pos = needs_positive(spec);
    v.push(Box::new(move |i| 1.0 + i as f64 * 0.5));
    v.push(Box::new(move |i| if pos { 1e6 / (1.0 + i as f64) } else { -(i as f64) * 0.5 }));
    v.push(Box::new(move |i| {
        let k = (i / 7) as f64;
        let saw = (i % 7) as f64;
        if pos { 1.0 + k * 0.01 + saw } else { (k * 0.01 + saw) * if (i / 7) % 2 == 0 { 1.0 } else { -1.0 } }
    }));
    v.push(Box::new(move |i| if pos { 1.0 + ((i * i) % 11) as f64 } else { ((i * i) % 11) as f64 - 5.0 }));
    // a widening oscillation: every value is a new extreme on its side
    v.push(Box::new(move |i| {
        let a = 1.0 + 0.001 * i as f64;
        if pos { if i % 2 == 0 { a } else { 1.0 / a } } else if i % 2 == 0 { a } else { -a }
    }));
    // a recurring jump whose square overflows (1e200 in f64, still finite input): an error path that
    // returns early must release what the regular path releases. (Kept last: a view whose own finiteness
    // assertion rejects such input is skipped from here on - that is C15's domain, not a memory matter.)
    v.push(Box::new(move |i| if i % 5 == 3 { 1e200 } else { 1.0 + (i % 3) as f64 }));
    v
}

fn alphabet(spec: &Spec) -> Vec<f64> {
    if needs_positive(spec) {
        vec![1.0, 2.0, 3.0]
    } else {
        vec![0.0, 1.0, -1.0]
    }
}

/// (a) the number of scalar slots stops growing once the windows have filled
fn shape_saturation<T: Scalar>(spec: &Spec, st: &mut Stats, sink: &Sink) {
    let w = spec.total_n();
    let warm = 2 * w + 8;
    // A bounded buffer may fluctuate below its bound (a monotonic candidate deque fed by an
    // IIR filter never becomes periodic), so growth is judged against the early maximum plus
    // the total window length; the run is long enough for a leak of one slot per cycle
    // (period <= 3) to outgrow that allowance.
    let total = warm + 3 * (w + 24);
    let alpha = alphabet(spec);
    st.configs += 1;
    let _ = &alpha;
    for drv in drivers(spec, 3) {
        let hist: Vec<f64> = (0..total).map(|i| drv(i)).collect();
        let r = guard(|| {
            let mut v = build::<T>(spec);
            // (max slots seen up to the warm-up horizon, empty options at the horizon)
            let mut at_warm = (0usize, 0usize);
            let mut worst: Option<(usize, usize)> = None;
            for (i, x) in hist.iter().enumerate() {
                v.update(T::of(*x));
                let _ = v.last();
                let s = slots(&format!("{:?}", v));
                if i + 1 <= warm {
                    // a bounded buffer may legitimately fluctuate (e.g. a monotonic
                    // candidate deque): compare against the maximum, not a point
                    at_warm = (at_warm.0.max(s.0), s.1);
                } else if s.0 > at_warm.0 + at_warm.1 + w && worst.is_none() {
                    worst = Some((i, s.0));
                }
            }
            (at_warm, worst)
        });
        st.transitions += total as u64;
        st.states += total as u64;
        st.traces += 1;
        match r {
            Ok((aw, Some((i, n)))) => {
                sink.push(Violation::new(
                    "C18",
                    spec,
                    "state-grows",
                    T::NAME,
                    &hist[..=i],
                    format!("the view holds {} scalar slots after {} updates but never more than {} (+{} empty options) during the first {} updates, with total window length {}", n, i + 1, aw.0, aw.1, warm, w),
                ));
                return;
            }
            Ok(_) => {}
            Err(_) => {
                st.skipped_configs += 1; // a panic is C15's matter
                return;
            }
        }
        st.oracle_evals += (total - warm) as u64;
    }
}

/// (b) live heap bytes attributed to the instance at stream lengths L and 4L
fn allocator<T: Scalar>(spec: &Spec, l: usize, st: &mut Stats, sink: &Sink) {
    let alpha = alphabet(spec);
    st.configs += 1;
    let _ = &alpha;
    for drv in drivers(spec, 2) {
        let cyc: Vec<f64> = (0..12).map(|i| drv(i)).collect();
        crate::spec::ADD_KEEPS_HISTORY.with(|c| c.set(false));
        let r = guard(|| {
            let before = alloc::live();
            let mut v = build::<T>(spec);
            for i in 0..l {
                v.update(T::of(drv(i)));
            }
            let _ = v.last();
            let b1 = alloc::live() - before;
            for i in l..4 * l {
                v.update(T::of(drv(i)));
            }
            let _ = v.last();
            let b2 = alloc::live() - before;
            drop(v);
            (b1, b2)
        });
        crate::spec::ADD_KEEPS_HISTORY.with(|c| c.set(true));
        st.transitions += 4 * l as u64;
        st.states += 2;
        st.traces += 1;
        match r {
            Ok((b1, b2)) => {
                st.oracle_evals += 2;
                st.out(Some(b1 as f64));
                let bound = 64 * (spec.total_n() as i64 + 8) * std::mem::size_of::<T>() as i64 * spec.depth() as i64;
                if b2 > b1 {
                    sink.push(Violation::new("C18", spec, "heap-grows", T::NAME, &cyc, format!("live heap bytes owned by the view: {} after {} updates, {} after {} updates (input: the driver that starts with these values)", b1, l, b2, 4 * l)));
                    return;
                }
                if b1 > bound {
                    sink.push(Violation::new("C18", spec, "heap-bound", T::NAME, &cyc, format!("{} live heap bytes after {} updates exceeds the window-length bound {}", b1, l, bound)));
                    return;
                }
            }
            Err(_) => {
                st.skipped_configs += 1;
                return;
            }
        }
    }
}

pub fn specs(quick: bool) -> Vec<Spec> {
    let mut v = vec![];
    let ns: Vec<usize> = if quick { vec![1, 2, 3, 5, 16] } else { vec![1, 2, 3, 5, 8, 16, 64] };
    for n in ns {
        for e in unary_catalogue() {
            if !e.has_n && n != 1 {
                continue;
            }
            v.extend(variants(e.kind, n, &Spec::echo()));
        }
    }
    for (a, b) in [(2, 5), (5, 2)] {
        v.extend(chains(a, b));
    }
    if !quick {
        v.extend(chains(2, 2));
        v.extend(chains(5, 5));
    }
    // every wrapper over a leaf that never delivers anything (growth while the inner view is silent)
    for e in unary_catalogue() {
        v.extend(variants(e.kind, 3, &Spec::never()));
    }
    // the views that take a second view (the moving average of EFT / PFE) with that view silent for ever,
    // and with one that warms up slowly
    for n in [3usize, 5] {
        for ma in [Spec::never(), Spec::un(crate::spec::Kind::Sma, 40, Spec::echo()), Spec::un(crate::spec::Kind::LaguerreRsi, 1, Spec::echo())] {
            v.push(Spec::with_ma(crate::spec::Kind::Eft, n, Spec::echo(), ma.clone()));
            v.push(Spec::with_ma(crate::spec::Kind::Pfe, n, Spec::echo(), ma));
        }
    }
    // binary combinators over a windowed and a recursive child
    for k in crate::spec::BINARY {
        v.push(Spec::bin(k, mk2(crate::spec::Kind::Sma, 3), Spec::unp(crate::spec::Kind::GTE, 0, vec![1.0], Spec::un(crate::spec::Kind::Ema, 2, Spec::echo()))));
    }
    v
}
fn mk2(k: crate::spec::Kind, n: usize) -> Spec {
    crate::spec::mk(k, n, Spec::echo())
}

pub fn run(ctx: &Ctx) -> CheckOutput {
    let quick = ctx.tier == Tier::Quick;
    let l = if quick { 10_000 } else { 250_000 };
    let mut jobs: Vec<Job> = vec![];
    for spec in specs(quick) {
        {
            let spec = spec.clone();
            jobs.push(Box::new(move || {
                let mut st = Stats::default();
                let sink = Sink::new();
                shape_saturation::<f64>(&spec, &mut st, &sink);
                JobOut { stats: st, viols: sink.take(), samples: vec![json!({"clause":"state-grows","view":spec.name(),"driver":"every cycle of period<=3, 5W+80 steps"})] }
            }));
        }
        let spec = spec.clone();
        jobs.push(Box::new(move || {
            let mut st = Stats::default();
            let sink = Sink::new();
            allocator::<f64>(&spec, l, &mut st, &sink);
            if !quick {
                allocator::<f32>(&spec, l / 10, &mut st, &sink);
            }
            JobOut { stats: st, viols: sink.take(), samples: vec![json!({"clause":"heap-grows","view":spec.name(),"L":l})] }
        }));
    }
    let o = run_jobs(jobs, ctx.seed);
    CheckOutput {
        stats: o.stats,
        violations: o.viols,
        samples: o.samples,
        rule: "every view (all secondary-parameter variants) x N, every two-level chain: (a) scalar slots in the Debug rendering of the real structs along every cycle of period<=3 must not exceed their maximum over the first 2W+8 updates by more than the total window length W during the following 3(W+24) updates; (b) counting global allocator: live bytes after L and 4L updates for every cycle of period<=2".into(),
        assumptions: vec!["'endless' is decided up to 4L updates; the driver set is exhaustive over the alphabet cycles".into()],
        exhaustive: true,
        bounds: json!({"L": l, "N": if quick {"1,2,3,5,16"} else {"1,2,3,5,8,16,64"}}),
    }
}
