//! C16 — floating-point results track the exact result: no drift, no stale residue.

use crate::alpha::*;
use crate::explore::{cycles, guard, run_jobs, tree, Job, JobOut, Step};
use crate::q::Q;
use crate::report::{CheckOutput, Sink, Stats, Violation};
use crate::scalar::Scalar;
use crate::spec::{build, mk, Dyn, Kind, Spec};
use crate::{Ctx, Tier};
use serde_json::json;
use sliding_features::View;

#[derive(Clone, Copy, PartialEq)]
enum ScaleKind {
    /// value-like: largest input magnitude
    Mag,
    /// bounded indicator: width of its range
    Width(f64),
    /// unbounded ratio: max(1, |exact|)
    Ratio,
}

fn scale_kind(s: &Spec) -> ScaleKind {
    use Kind::*;
    let n = s.n as f64;
    match s.kind {
        Rsi => ScaleKind::Width(100.0),
        MyRsi | HLNormalizer | Cti | Net => ScaleKind::Width(2.0),
        LaguerreRsi | BinaryEntropy => ScaleKind::Width(1.0),
        Vsct => ScaleKind::Width(2.0 * (n - 1.0).max(1.0) / n.sqrt()),
        Eft => ScaleKind::Width(2.0 * 199.0f64.ln()),
        TrendFlex | ReFlex => ScaleKind::Width(10.0),
        Vst | Roc | CenterOfGravity | Pfe => ScaleKind::Ratio,
        _ => ScaleKind::Mag,
    }
}

fn tol(s: &Spec, rel: f64, mag: f64, exact: f64) -> f64 {
    rel * match scale_kind(s) {
        ScaleKind::Mag => mag,
        ScaleKind::Width(w) => w,
        ScaleKind::Ratio => exact.abs().max(1.0),
    }
}

/// memory (in values) after which the exact output of a windowed view is periodic on periodic input
fn memory(s: &Spec) -> usize {
    use Kind::*;
    match s.kind {
        Rsi | MyRsi | Roc => s.n + 1,
        Alma | AlmaCustom => 2 * s.n,
        Pfe => s.n + s.ch[1].n,
        // not windowed, but on a periodic positive input their exact output is periodic
        // (Drawdown: constant) once every letter of the cycle has been seen
        Drawdown | LnReturn => 8,
        _ => s.n,
    }
}

pub fn windowed_specs(n: usize) -> Vec<Spec> {
    use Kind::*;
    let mut v = vec![];
    for k in [Sma, Cumulative, Alma, Rsi, MyRsi, WelfordOnline, Vst, Vsct, HLNormalizer, Roc, BinaryEntropy, CenterOfGravity, Cti, Net, Min, Max] {
        v.push(mk(k, n, Spec::echo()));
    }
    if n >= 3 {
        v.push(Spec::with_ma(Pfe, n, Spec::echo(), Spec::un(Sma, 2, Spec::echo())));
    }
    v
}

/// Part A for windowed views: exact periodic reference from the same code at Q
fn drift_windowed<T: Scalar>(spec: &Spec, alpha: &[f64], period: usize, len: usize, rel: f64, st: &mut Stats, sink: &Sink) {
    st.configs += 1;
    let k = memory(spec) + 2;
    for cyc in cycles(alpha, period) {
        let p = cyc.len();
        // exact run
        Q::reset();
        let steps = k + 3 * p;
        let exact = guard(|| {
            let mut q = build::<Q>(spec);
            let mut o: Vec<Option<f64>> = vec![];
            let mut keys: Vec<String> = vec![];
            for i in 0..steps {
                q.update(Q::of(cyc[i % p]));
                let l = q.last();
                o.push(l.map(|x| x.f()));
                keys.push(crate::scalar::opt_key(l));
            }
            (o, keys)
        });
        let (exact, keys) = match exact {
            Ok(e) => e,
            Err(_) => {
                st.bump("exact_run_panicked_skipped", 1);
                continue;
            }
        };
        // the exact output must be periodic from step k on (this is what binds the reference)
        let tainted = Q::inexact_ops() > 0;
        let periodic = (k..k + 2 * p).all(|i| {
            if !tainted {
                keys[i] == keys[i + p]
            } else {
                match (exact[i], exact[i + p]) {
                    (None, None) => true,
                    (Some(a), Some(b)) => (a - b).abs() <= 1e-12 * (1.0 + b.abs()),
                    _ => false,
                }
            }
        });
        if !periodic {
            st.bump("drivers_skipped_exact_output_not_periodic", 1);
            continue;
        }
        let mag = cyc.iter().fold(0.0f64, |m, x| m.max(x.abs()));
        // ratio-type outputs: the natural scale is the largest magnitude the exact output takes on this stream
        let ratio_scale = exact[k..].iter().flatten().fold(1.0f64, |m, x| m.max(x.abs()));
        // CenterOfGravity divides by the window sum: where that sum is exactly 0 the exact function is
        // discontinuous (defined as 0 there, unbounded next to it) and no floating-point evaluation can
        // track it; those singular steps are not judged (decided on the exact tenths of the letters)
        let tenths: Vec<i64> = cyc.iter().map(|x| (x * 10.0).round() as i64).collect();
        // ... unless the floating-point sum of the window, taken oldest first as any evaluation from
        // the window would, is itself exactly 0 (all zeros, or +c/-c pairs): then 0 is attainable
        let singular = |i: usize| -> bool {
            spec.kind == Kind::CenterOfGravity && {
                let n = spec.n.min(i + 1);
                let exact_zero = (0..n).map(|j| tenths[(i - j) % p]).sum::<i64>() == 0;
                let mut naive = 0.0f64;
                for j in (0..n).rev() {
                    naive += cyc[(i - j) % p];
                }
                exact_zero && naive != 0.0
            }
        };
        let r = guard(|| {
            let mut v = build::<T>(spec);
            for i in 0..len {
                v.update(T::of(cyc[i % p]));
                if i < k || singular(i) {
                    continue;
                }
                let want = exact[k + (i - k) % p];
                let got = v.last().map(|x| x.f());
                let ok = match (got, want) {
                    (None, None) => true,
                    (Some(g), Some(w)) => g.is_finite() && (g - w).abs() <= tol(spec, rel, mag, w.abs().max(ratio_scale)),
                    _ => false,
                };
                if !ok {
                    return Some((i, got, want));
                }
            }
            None
        });
        st.transitions += len as u64 + steps as u64;
        st.states += len as u64;
        st.oracle_evals += (len - k.min(len)) as u64;
        st.traces += 1;
        match r {
            Ok(Some((i, got, want))) => {
                let h: Vec<f64> = (0..=i.min(3000)).map(|j| cyc[j % p]).collect();
                sink.push(
                    Violation::new("C16", spec, "drift", T::NAME, &h, format!("cycle {:?} repeated: at step {} the {} result is {:?} but exact rational arithmetic gives {:?} (tolerance {:e})", cyc, i, T::NAME, got, want, tol(spec, rel, mag, want.unwrap_or(0.0))))
                        .tag_if2(cyc.iter().all(|x| *x == cyc[0]), "constant_input"),
                );
                return;
            }
            Ok(None) => {}
            Err(m) => {
                sink.push(Violation::new("C16", spec, "panicked", T::NAME, &cyc, format!("{} (cycle repeated for {} steps)", m, len)));
                return;
            }
        }
    }
}

/// Part A for WelfordRolling: exact integer running sums
fn drift_rolling<T: Scalar>(period: usize, len: usize, rel: f64, st: &mut Stats, sink: &Sink) {
    let spec = mk(Kind::WelfordRolling, 0, Spec::echo());
    st.configs += 1;
    for cyc in cycles(&F6, period) {
        let p = cyc.len();
        // the letters as T sees them (f32 rounds them), times 10^k as exact integers is not possible
        // for f32, so the exact statistics are taken over the f64 letters and the tolerance covers
        // the f32 input rounding (1e-2 >> 6e-8)
        let ints: Vec<i128> = cyc.iter().map(|x| (x * 10.0).round() as i128).collect();
        let mag = cyc.iter().fold(0.0f64, |m, x| m.max(x.abs()));
        let r = guard(|| {
            let mut v = build::<T>(&spec);
            let (mut s1, mut s2): (i128, i128) = (0, 0);
            for i in 0..len {
                v.update(T::of(cyc[i % p]));
                let xi = ints[i % p];
                s1 += xi;
                s2 += xi * xi;
                let n = (i + 1) as i128;
                let var = ((n * s2 - s1 * s1) as f64 / (100.0 * (n * n) as f64)).max(0.0);
                let want = var.sqrt();
                let got = v.last().map(|x| x.f());
                if !matches!(got, Some(g) if g.is_finite() && (g - want).abs() <= rel * mag) {
                    return Some((i, got, want));
                }
            }
            None
        });
        st.transitions += len as u64;
        st.states += len as u64;
        st.oracle_evals += len as u64;
        st.traces += 1;
        if let Ok(Some((i, got, want))) = r {
            let h: Vec<f64> = (0..=i.min(3000)).map(|j| cyc[j % p]).collect();
            sink.push(Violation::new("C16", &spec, "drift", T::NAME, &h, format!("cycle {:?} repeated: at step {} the {} result is {:?} but the exact population std is {:e}", cyc, i, T::NAME, got, want)));
            return;
        }
    }
}

/// recursive filters: fading memory forbids accumulation; compared with the same code at Q for 200 steps
fn drift_recursive(spec: &Spec, steps: usize, st: &mut Stats, sink: &Sink) {
    st.configs += 1;
    for cyc in cycles(&[0.1, 3.3, 99.7], 2) {
        let p = cyc.len();
        Q::reset();
        let r = guard(|| {
            let mut q = build::<Q>(spec);
            let mut v = build::<f64>(spec);
            for i in 0..steps {
                let x = cyc[i % p];
                q.update(Q::of(x));
                v.update(x);
                let (e, g) = (q.last().map(|x| x.f()), v.last());
                let ok = match (g, e) {
                    (None, None) => true,
                    (Some(g), Some(w)) => g.is_finite() && (g - w).abs() <= tol(spec, 1e-6, 99.7, w),
                    _ => false,
                };
                if !ok {
                    return Some((i, g, e));
                }
            }
            None
        });
        st.transitions += 2 * steps as u64;
        st.states += steps as u64;
        st.oracle_evals += steps as u64;
        st.traces += 1;
        match r {
            Ok(Some((i, g, e))) => {
                let h: Vec<f64> = (0..=i).map(|j| cyc[j % p]).collect();
                sink.push(Violation::new("C16", spec, "drift", "f64", &h, format!("at step {} f64 gives {:?}, exact rational arithmetic {:?}", i, g, e)));
                return;
            }
            Ok(None) => {}
            Err(m) => {
                sink.push(Violation::new("C16", spec, "panicked", "f64", &cyc, m));
                return;
            }
        }
    }
}

/// Part B: a volatile prefix followed by >= N+1 identical values
fn flat_tail<T: Scalar>(spec: &Spec, pdepth: usize, rel: f64, st: &mut Stats, sink: &Sink) {
    use Kind::*;
    let n = spec.n;
    st.configs += 1;
    let Some(root) = super::common::build_or_report::<T>("C16", spec, sink) else { return };
    let lens = [n + 1, n + 2, 3 * n];
    let maxlen = 3 * n + if spec.kind == CyberCycle { 40 * n.max(6) } else { 0 };
    let mut check_tails = |v: &Dyn<T>, hist: &[f64], st: &mut Stats| {
        for c in F6 {
            let mut inst = v.clone();
            // the exact answer: MyRSI holds a value that only the exact run knows
            // (and Ema has no window: its exact answer still remembers the prefix)
            let mut want_q: Vec<Option<f64>> = vec![];
            if spec.kind == MyRsi || spec.kind == Ema {
                Q::reset();
                let mut q = build::<Q>(spec);
                for x in hist {
                    q.update(Q::of(*x));
                }
                for _ in 0..maxlen {
                    q.update(Q::of(c));
                    want_q.push(q.last().map(|x| x.f()));
                }
            }
            let mut h = hist.to_vec();
            let mag = hist.iter().fold(c.abs(), |m, x| m.max(x.abs()));
            for i in 1..=maxlen {
                inst.update(T::of(c));
                h.push(c);
                st.transitions += 1;
                // (a view whose state is exactly the last N values has a flat window after N of them)
                let window_is_n = matches!(spec.kind, Vst | Vsct | WelfordOnline | HLNormalizer | Cti | Net | Sma);
                let judged = if spec.kind == CyberCycle { i == maxlen } else { lens.contains(&i) || (window_is_n && i == n) };
                if !judged {
                    continue;
                }
                let want: f64 = match spec.kind {
                    Rsi => 100.0,
                    MyRsi | Ema => want_q[i - 1].unwrap_or(f64::NAN),
                    Vst => c,
                    Vsct | WelfordOnline | HLNormalizer | Cti | Net | Roc | CyberCycle => 0.0,
                    _ => c, // the moving averages
                };
                let got = inst.last().map(|x| x.f());
                st.oracle_evals += 1;
                st.out(got);
                let t = tol(spec, rel, mag, want);
                if !matches!(got, Some(g) if g.is_finite() && (g - want).abs() <= t) {
                    sink.push(
                        Violation::new("C16", spec, "flat-tail", T::NAME, &h, format!("after the volatile prefix {:?} and {} identical values {} the view reports {:?}; the exact flat-window answer is {:e} (tolerance {:e})", hist, i, c, got, want, t))
                            .tag("window_flat")
                            .tag_if2(hist.is_empty(), "no_prefix"),
                    );
                    return false;
                }
            }
            st.traces += 1;
        }
        true
    };
    if let Err(m) = guard(|| check_tails(&root, &[], st)) {
        sink.push(Violation::new("C16", spec, "panicked", T::NAME, &[], format!("{} (a flat stream with no prefix)", m)));
        return;
    }
    tree::<T, Dyn<T>>(
        &root,
        &F7,
        pdepth,
        st,
        &mut |v, hist, st| {
            v.update(T::of(*hist.last().unwrap()));
            st.transitions += 1;
            if check_tails(v, hist, st) {
                Step::Go
            } else {
                Step::Prune
            }
        },
        &mut |hist, msg| sink.push(Violation::new("C16", spec, "panicked", T::NAME, hist, msg)),
    );
}

pub fn run(ctx: &Ctx) -> CheckOutput {
    let quick = ctx.tier == Tier::Quick;
    use Kind::*;
    let ns: Vec<usize> = if quick { vec![2, 3, 7] } else { vec![2, 3, 5, 7, 16, 50] };
    let (period, len64, len32) = if quick { (3, 20_000, 4_000) } else { (4, 100_000, 10_000) };
    let mut jobs: Vec<Job> = vec![];
    for n in &ns {
        for spec in windowed_specs(*n) {
            {
                let spec = spec.clone();
                jobs.push(Box::new(move || {
                    let mut st = Stats::default();
                    let sink = Sink::new();
                    drift_windowed::<f64>(&spec, &F6, period, len64, 1e-6, &mut st, &sink);
                    JobOut { stats: st, viols: sink.take(), samples: vec![json!({"clause":"drift","scalar":"f64","view":spec.name(),"driver":format!("every cycle over F6 of period<={}", period),"steps":len64})] }
                }));
            }
            let spec = spec.clone();
            jobs.push(Box::new(move || {
                let mut st = Stats::default();
                let sink = Sink::new();
                drift_windowed::<f32>(&spec, &F6, period.min(3), len32, 1e-2, &mut st, &sink);
                JobOut { stats: st, viols: sink.take(), samples: vec![json!({"clause":"drift","scalar":"f32","view":spec.name(),"steps":len32})] }
            }));
        }
    }
    // a second alphabet inside the same three decades: a level near 900 with steps near 1 and one value
    // at 1 (an outlier whose departure leaves a tight window behind)
    const H5: [f64; 5] = [900.0, 901.3, 899.1, 1.0, 905.7];
    for n in &ns {
        for spec in windowed_specs(*n) {
            jobs.push(Box::new(move || {
                let mut st = Stats::default();
                let sink = Sink::new();
                drift_windowed::<f32>(&spec, &H5, period.min(3), len32, 1e-2, &mut st, &sink);
                drift_windowed::<f64>(&spec, &H5, period.min(3), len64 / 5, 1e-6, &mut st, &sink);
                JobOut { stats: st, viols: sink.take(), samples: vec![json!({"clause":"drift","scalar":"f32, f64","view":spec.name(),"driver":"every cycle over {900, 901.3, 899.1, 1, 905.7} of period<=3","steps_f32":len32,"steps_f64":len64 / 5})] }
            }));
        }
    }
    for k in [Drawdown, LnReturn] {
        let spec = mk(k, 0, Spec::echo());
        jobs.push(Box::new(move || {
            let mut st = Stats::default();
            let sink = Sink::new();
            drift_windowed::<f64>(&spec, &F4P, period, len64, 1e-6, &mut st, &sink);
            drift_windowed::<f32>(&spec, &F4P, period.min(3), len32, 1e-2, &mut st, &sink);
            JobOut { stats: st, viols: sink.take(), samples: vec![] }
        }));
    }
    if !quick {
        // the full 10^6 horizon on the cycles of period <= 2 for the accumulator views
        for n in [3usize, 16] {
            for k in [Sma, Cumulative, Alma, Rsi, MyRsi, WelfordOnline, Vst, Vsct] {
                let spec = mk(k, n, Spec::echo());
                jobs.push(Box::new(move || {
                    let mut st = Stats::default();
                    let sink = Sink::new();
                    drift_windowed::<f64>(&spec, &F6, 2, 1_000_000, 1e-6, &mut st, &sink);
                    JobOut { stats: st, viols: sink.take(), samples: vec![json!({"clause":"drift","scalar":"f64","view":spec.name(),"steps":1000000,"driver":"every cycle over F6 of period<=2"})] }
                }));
            }
        }
    }
    for p in 1..=period {
        jobs.push(Box::new(move || {
            let mut st = Stats::default();
            let sink = Sink::new();
            if p == period {
                drift_rolling::<f64>(period, if quick { 100_000 } else { 1_000_000 }.min(if period > 3 { 200_000 } else { 1_000_000 }), 1e-6, &mut st, &sink);
                drift_rolling::<f32>(period.min(2), len32, 1e-2, &mut st, &sink);
            }
            JobOut { stats: st, viols: sink.take(), samples: vec![] }
        }));
    }
    for n in [3usize, 8] {
        let e = Spec::echo;
        let mut specs = vec![mk(Ema, n, e()), mk(SuperSmoother, n, e()), mk(CyberCycle, n, e()), mk(LaguerreRsi, n, e()), mk(TrendFlex, n, e()), mk(ReFlex, n, e()), Spec::roofing(n, 2, e()), mk(Eft, n, e())];
        if n == 3 {
            specs.push(Spec::unp(LaguerreFilter, 0, vec![0.5], e()));
        }
        for spec in specs {
            jobs.push(Box::new(move || {
                let mut st = Stats::default();
                let sink = Sink::new();
                drift_recursive(&spec, if quick { 120 } else { 200 }, &mut st, &sink);
                JobOut { stats: st, viols: sink.take(), samples: vec![] }
            }));
        }
    }
    // Part B
    let pdepth = if quick { 3 } else { 5 };
    for n in &ns {
        for k in [Rsi, MyRsi, Vst, Vsct, WelfordOnline, HLNormalizer, Cti, Net, Roc, CyberCycle, Sma, Ema, Alma] {
            let spec = mk(k, *n, Spec::echo());
            jobs.push(Box::new(move || {
                let mut st = Stats::default();
                let sink = Sink::new();
                flat_tail::<f64>(&spec, pdepth, 1e-4, &mut st, &sink);
                // the same clause at f32 with the f32 tolerance of part A
                flat_tail::<f32>(&spec, pdepth.min(3), 1e-2, &mut st, &sink);
                JobOut { stats: st, viols: sink.take(), samples: vec![json!({"clause":"flat-tail","view":spec.name(),"driver":format!("every prefix in F7^<={} x 6 flat values x tails of N+1, N+2, 3N", pdepth)})] }
            }));
        }
    }
    let o = run_jobs(jobs, ctx.seed);
    CheckOutput {
        stats: o.stats,
        violations: o.viols,
        samples: o.samples,
        rule: "Part A: every windowed view x N x every cycle over F6 (three decades, both signs) up to the stated period, extended to the stated length at f64 and f32; at every step compared with the exact periodic output of the same generic code at the rational scalar (periodicity asserted); WelfordRolling against exact integer sums; recursive filters against a lockstep Q run. Part B: every volatile prefix over F7 up to the stated depth followed by N+1, N+2 and 3N identical values for each of six values; the exact flat-window answer within 1e-4 of the natural scale".into(),
        assumptions: vec!["long streams are periodic extensions of an exhaustively enumerated cycle set; the 10^6 (f64) horizon is reached in the thorough tier on the cycles of period <= 2".into()],
        exhaustive: true,
        bounds: json!({"N": ns, "period": period, "len_f64": len64, "len_f32": len32, "prefix_depth": pdepth}),
    }
}
