//! C17 — views are deterministic values: last() is pure and clones are independent.

use crate::catalogue::*;
use crate::explore::{closure, guard, run_jobs, tree, Job, JobOut, Step};
use crate::report::{CheckOutput, Sink, Stats, Violation};
use crate::scalar::{opt_key, opt_same, Scalar};
use crate::spec::{build, unary_catalogue, Dyn, Kind, Spec, BINARY};
use crate::{Ctx, Tier};
use serde_json::json;
use sliding_features::View;

fn alphabet(spec: &Spec) -> Vec<f64> {
    if needs_positive(spec) {
        vec![1.0, 2.0, 3.0]
    } else {
        vec![0.0, 1.0, -1.0]
    }
}

fn obs<T: Scalar>(v: &Dyn<T>) -> (String, String) {
    (format!("{:?}", v), opt_key(v.last()))
}

/// the subject plus *foreign* instances (same kind, other window lengths) that are fed
/// interleaved with it: hidden state shared between instances (a static scratch buffer, a
/// memo keyed by window length) shows as a difference from the twin, which replays the
/// subject's history with nothing in between
#[derive(Clone)]
struct Subject<T: Scalar> {
    v: Dyn<T>,
    foreign: Vec<Dyn<T>>,
}

fn foreign_specs(spec: &Spec) -> Vec<Spec> {
    let mut v = vec![];
    // same window length, other secondary parameters (a memo keyed by the window length alone)
    if spec.ch.len() <= 2 && spec.kind != Kind::Add && spec.depth() <= 2 {
        let mut kinds = vec![spec.kind];
        match spec.kind {
            Kind::Alma => kinds.push(Kind::AlmaCustom),
            Kind::AlmaCustom => kinds.push(Kind::Alma),
            Kind::Ema => kinds.push(Kind::EmaAlpha),
            Kind::EmaAlpha => kinds.push(Kind::Ema),
            _ => {}
        }
        for k in kinds {
            for f in variants(k, spec.n, &Spec::echo()) {
                if f != *spec {
                    v.push(f);
                }
            }
        }
    }
    if crate::spec::entry(spec.kind).has_n && spec.ch.len() <= 2 && spec.kind != Kind::Add {
        for dn in [1usize, 3] {
            let mut f = spec.clone();
            f.n = spec.n + dn;
            v.push(f);
        }
    }
    v
}

fn node_s<T: Scalar>(spec: &Spec, s: &mut Subject<T>, hist: &[f64], alpha: &[f64], st: &mut Stats, sink: &Sink) -> Step {
    // feed the foreign instances something the subject never sees, right before the subject works
    let positive = needs_positive(spec);
    let r = guard(|| {
        for (i, f) in s.foreign.iter_mut().enumerate() {
            f.update(T::of(if positive { 7.5 + i as f64 } else { -3.5 - i as f64 }));
            let _ = f.last();
        }
    });
    if r.is_err() {
        s.foreign.clear();
    }
    node(spec, &mut s.v, hist, alpha, st, sink)
}

/// all the C17 obligations at one node; `s` is the state before the update by `x`
fn node<T: Scalar>(spec: &Spec, s: &mut Dyn<T>, hist: &[f64], alpha: &[f64], st: &mut Stats, sink: &Sink) -> Step {
    let x = *hist.last().unwrap();
    let fail = |clause: &str, detail: String| {
        sink.push(Violation::new("C17", spec, clause, T::NAME, hist, detail));
        Step::Prune
    };
    let r = guard(|| {
        let before = obs(s);
        // (i) last() is pure
        let l1 = opt_key(s.last());
        let l2 = opt_key(s.last());
        let l3 = opt_key(s.last());
        if l1 != l2 || l2 != l3 || l1 != before.1 {
            return Err(("last-pure", format!("repeated last() calls return {} {} {} {}", before.1, l1, l2, l3)));
        }
        if obs(s).0 != before.0 {
            return Err(("last-pure", "calling last() changed the view's state".to_string()));
        }
        // (ii)-(iv) clones: equal at birth, independent, and continue like the original
        let mut via_clone: Option<(String, String)> = None;
        for &v in alpha {
            let mut c = s.clone();
            st.bump("clones_taken", 1);
            let co = obs(&c);
            if co != before {
                return Err(("clone-equal", format!("a clone differs from its original at birth: {} vs {}", co.1, before.1)));
            }
            c.update(T::of(v));
            st.transitions += 1;
            let _ = c.last();
            if obs(s) != before {
                return Err(("clone-independent", format!("feeding {} to a clone changed the original (last {} -> {})", v, before.1, opt_key(s.last()))));
            }
            if v == x {
                via_clone = Some(obs(&c));
            }
            // a second clone fed the same value must agree with the first
            let mut c2 = s.clone();
            c2.update(T::of(v));
            st.transitions += 1;
            if obs(&c2) != obs(&c) {
                return Err(("deterministic", format!("two clones fed {} disagree: {} vs {}", v, opt_key(c.last()), opt_key(c2.last()))));
            }
        }
        s.update(T::of(x));
        st.transitions += 1;
        let after = obs(s);
        st.out(s.last().map(|v| v.f()));
        if Some(&after) != via_clone.as_ref() {
            return Err(("clone-continues", format!("original reports {} after update({}) but its clone reports {}", after.1, x, via_clone.map(|c| c.1).unwrap_or_default())));
        }
        // (v) twin: a fresh instance replaying the history
        let mut twin = build::<T>(spec);
        for h in hist {
            twin.update(T::of(*h));
            st.transitions += 1;
        }
        let tw = obs(&twin);
        if tw != after {
            return Err(("twin", format!("a fresh instance fed the same history reports {} but this one reports {}", tw.1, after.1)));
        }
        Ok(())
    });
    st.oracle_evals += 1;
    match r {
        Ok(Ok(())) => Step::Go,
        Ok(Err((clause, detail))) => fail(clause, detail),
        Err(_) => {
            st.bump("panicked_steps_not_judged", 1);
            Step::Prune
        }
    }
}

fn check_tree<T: Scalar>(spec: &Spec, depth: usize, st: &mut Stats, sink: &Sink) {
    let alpha = alphabet(spec);
    let root = match guard(|| Subject { v: build::<T>(spec), foreign: foreign_specs(spec).iter().filter_map(|f| guard(|| build::<T>(f)).ok()).collect() }) {
        Ok(r) => r,
        Err(_) => {
            st.skipped_configs += 1;
            return;
        }
    };
    st.configs += 1;
    tree::<T, Subject<T>>(
        &root,
        &alpha,
        depth,
        st,
        &mut |s, hist, st| node_s(spec, s, hist, &alpha, st, sink),
        &mut |_, _| {},
    );
}

/// One replay per configuration in a thread that has never run any view: state hidden in a
/// `thread_local!` (a scratch buffer, a memo) that other instances have touched in the worker
/// thread cannot have been touched there.
fn fresh_thread_twin(spec: &Spec, st: &mut Stats, sink: &Sink) {
    let alpha = alphabet(spec);
    let len = spec.total_n() + 8;
    let hist: Vec<f64> = (0..len).map(|i| alpha[(i * 7 + i / 3) % alpha.len()]).collect();
    let run = |spec: &Spec, hist: &[f64]| -> Result<Vec<String>, String> {
        guard(|| {
            let mut v = build::<f64>(spec);
            hist.iter()
                .map(|x| {
                    v.update(*x);
                    opt_key(v.last())
                })
                .collect()
        })
    };
    // instances of the same view at the other scalars run in this thread first: state shared between
    // instantiations (a memo keyed by window length, say) must not leak from one scalar type into another
    // (in a thread of its own, so that the other scalars really are the first to run there)
    let (s3, h3) = (spec.clone(), hist.clone());
    let mixed = std::thread::spawn(move || {
        crate::spec::ADD_KEEPS_HISTORY.with(|c| c.set(true));
        let _ = guard(|| {
            let mut a = build::<f32>(&s3);
            let mut b = build::<crate::lo::Lo>(&s3);
            for x in h3.iter().take(6) {
                a.update(*x as f32);
                b.update(<crate::lo::Lo as Scalar>::of(*x));
                let _ = (a.last(), b.last());
            }
        });
        guard(|| {
            let mut v = build::<f64>(&s3);
            h3.iter()
                .map(|x| {
                    v.update(*x);
                    opt_key(v.last())
                })
                .collect::<Vec<String>>()
        })
    })
    .join();
    let here = run(spec, &hist);
    let (s2, h2) = (spec.clone(), hist.clone());
    let there = std::thread::spawn(move || {
        crate::spec::ADD_KEEPS_HISTORY.with(|c| c.set(true));
        let r = guard(|| {
            let mut v = build::<f64>(&s2);
            h2.iter()
                .map(|x| {
                    v.update(*x);
                    opt_key(v.last())
                })
                .collect::<Vec<String>>()
        });
        r
    })
    .join();
    st.transitions += 2 * len as u64;
    st.oracle_evals += 1;
    st.bump("fresh_thread_twins", 1);
    if let (Ok(Ok(m)), Ok(Ok(b))) = (&mixed, &there) {
        if m != b {
            let k = m.iter().zip(b.iter()).position(|(x, y)| x != y).unwrap_or(0);
            sink.push(Violation::new("C17", spec, "fresh-thread-twin", "f64", &hist[..=k], format!("the same view fed the same inputs reports {} in a thread in which instances at f32 and at the coarse scalar ran first, but {} in a fresh thread", m[k], b[k])));
            return;
        }
    }
    if let (Ok(a), Ok(Ok(b))) = (here, there) {
        if a != b {
            let k = a.iter().zip(b.iter()).position(|(x, y)| x != y).unwrap_or(0);
            sink.push(Violation::new("C17", spec, "fresh-thread-twin", "f64", &hist[..=k], format!("the same view fed the same inputs reports {} in a worker thread that has run other instances (also at f32 and at the coarse scalar), but {} in a fresh thread", a[k], b[k])));
        }
    }
}

/// Clones taken after the window has slid, on histories of non-representable values: a clone does
/// not share the physical layout of its original's buffers (a cloned VecDeque is contiguous), so
/// anything that depends on that layout - an order of summation, a capacity - shows as a clone that
/// stops agreeing with its original bit for bit.
fn clone_after_slide(spec: &Spec, st: &mut Stats, sink: &Sink) {
    let letters: [f64; 3] = if needs_positive(spec) { [0.1, 0.7, 3.3] } else { [0.1, 0.7, -3.3] };
    let w = spec.total_n().max(1);
    st.configs += 1;
    for cyc in crate::explore::cycles(&letters, 3) {
        let total = 3 * w + 16;
        let hist: Vec<f64> = (0..total).map(|i| cyc[(i * 2 + i / 5) % cyc.len()]).collect();
        let r = guard(|| {
            let mut orig = build::<f64>(spec);
            let mut clones: Vec<(usize, Dyn<f64>)> = vec![];
            for i in 0..total {
                orig.update(hist[i]);
                let o = obs(&orig);
                for (born, c) in clones.iter_mut() {
                    c.update(hist[i]);
                    if obs(c) != o {
                        return Some((i, *born, o.1.clone(), obs(c).1));
                    }
                }
                if i == w || i == 2 * w + 1 || i == 3 * w {
                    clones.push((i, orig.clone()));
                }
            }
            None
        });
        st.transitions += 3 * total as u64;
        st.states += total as u64;
        st.oracle_evals += total as u64;
        st.traces += 1;
        match r {
            Ok(Some((i, born, o, c))) => {
                sink.push(Violation::new("C17", spec, "clone-continues", "f64", &hist[..=i], format!("a clone taken after update {} and fed the same inputs as its original reports {} at update {} where the original reports {}", born + 1, c, i + 1, o)));
                return;
            }
            Ok(None) => {}
            Err(_) => {
                st.bump("panicked_steps_not_judged", 1);
                return;
            }
        }
    }
}

fn check_closure(spec: &Spec, cap: usize, st: &mut Stats, sink: &Sink) {
    let alpha = alphabet(spec);
    let root = match guard(|| build::<f64>(spec)) {
        Ok(r) => r,
        Err(_) => {
            st.skipped_configs += 1;
            return;
        }
    };
    st.configs += 1;
    closure::<Dyn<f64>>(
        root,
        &alpha,
        cap,
        40,
        st,
        &|s| format!("{:?}", s),
        &mut |s, hist, st| node(spec, s, hist, &alpha, st, sink),
        &mut |_, _| {},
    );
}

/// `Clone::clone_from` is the other way of taking a clone (what `Vec::clone_from` and
/// `Option::clone_from` forward to): after `b.clone_from(&a)`, b must continue exactly like a and like
/// `a.clone()`, whatever b was before - a differently configured instance that has seen a different
/// history. Statically typed (the trait object of the harness cannot express `clone_from`).
fn clone_from_static(st: &mut Stats, sink: &Sink) {
    use sliding_features::pure_functions::*;
    use sliding_features::rolling::*;
    use sliding_features::sliding_windows::*;
    let e = Echo::<f64>::new;
    let pre_a = [0.7, -3.3, 0.1, 0.1, 2.5, -1.0, 0.3];
    let pre_b = [5.0, 4.0, 4.0, -2.0];
    let suffixes = crate::explore::sequences(&[0.1, 0.7, -3.3], 4);
    macro_rules! cf {
        ($name:expr, $a:expr, $b:expr) => {{
            st.configs += 1;
            'sfx: for sfx in &suffixes {
                let r = crate::explore::guard(|| {
                    let (mut a, mut b) = ($a, $b);
                    for x in pre_a {
                        a.update(x);
                    }
                    for x in pre_b {
                        b.update(x);
                    }
                    b.clone_from(&a);
                    let mut c = a.clone();
                    if !opt_same::<f64>(a.last(), b.last()) {
                        return Some((0usize, a.last(), b.last(), c.last()));
                    }
                    for (i, x) in sfx.iter().enumerate() {
                        a.update(*x);
                        b.update(*x);
                        c.update(*x);
                        if !opt_same::<f64>(a.last(), b.last()) || !opt_same::<f64>(a.last(), c.last()) {
                            return Some((i + 1, a.last(), b.last(), c.last()));
                        }
                    }
                    None
                });
                st.transitions += 3 * sfx.len() as u64 + 11;
                st.oracle_evals += 2 * sfx.len() as u64 + 1;
                st.traces += 1;
                match r {
                    Ok(None) => {}
                    Ok(Some((i, a, b, c))) => {
                        let mut h = pre_a.to_vec();
                        h.extend_from_slice(&sfx[..i]);
                        sink.push(Violation::new("C17", &Spec::echo(), "clone_from", "f64", &h, format!("{}: after b.clone_from(&a) (b configured differently, with another history) and {} further updates: a reports {}, b reports {}, a.clone() reports {}", $name, i, opt_key(a), opt_key(b), opt_key(c))).tag("static"));
                        break 'sfx;
                    }
                    Err(_) => break 'sfx,
                }
            }
        }};
    }
    cf!("GTE", GTE::new(e(), 0.5), GTE::new(e(), -2.0));
    cf!("LTE", LTE::new(e(), 0.5), LTE::new(e(), 7.0));
    cf!("Constant", Constant::new(2.0f64), Constant::new(-1.0f64));
    cf!("Sma", Sma::new(e(), 3), Sma::new(e(), 5));
    cf!("Ema", Ema::new(e(), 3), Ema::new(e(), 5));
    cf!("Ema::with_alpha", Ema::with_alpha(e(), 3, 1.0), Ema::with_alpha(e(), 3, 2.0));
    cf!("Alma", Alma::new(e(), 3), Alma::new(e(), 5));
    cf!("Alma::new_custom", Alma::new_custom(e(), 3, 4.0, 0.5), Alma::new_custom(e(), 3, 6.0, 0.85));
    cf!("Cumulative", Cumulative::new(e(), 3), Cumulative::new(e(), 5));
    cf!("Min", Min::new(e(), 3), Min::new(e(), 5));
    cf!("Max", Max::new(e(), 3), Max::new(e(), 5));
    cf!("Roc", Roc::new(e(), 3), Roc::new(e(), 2));
    cf!("WelfordOnline", WelfordOnline::new(e(), 3), WelfordOnline::new(e(), 5));
    cf!("Vst", Vst::new(e(), 3), Vst::new(e(), 5));
    cf!("Vsct", Vsct::new(e(), 3), Vsct::new(e(), 5));
    cf!("HLNormalizer", HLNormalizer::new(e(), 3), HLNormalizer::new(e(), 5));
    cf!("BinaryEntropy", BinaryEntropy::new(e(), 3), BinaryEntropy::new(e(), 5));
    cf!("CenterOfGravity", CenterOfGravity::new(e(), 3), CenterOfGravity::new(e(), 5));
    cf!("CorrelationTrendIndicator", CorrelationTrendIndicator::new(e(), 3), CorrelationTrendIndicator::new(e(), 5));
    cf!("NoiseEliminationTechnology", NoiseEliminationTechnology::new(e(), 3), NoiseEliminationTechnology::new(e(), 5));
    cf!("Rsi", Rsi::new(e(), 3), Rsi::new(e(), 2));
    cf!("MyRSI", MyRSI::new(e(), 3), MyRSI::new(e(), 2));
    cf!("PolarizedFractalEfficiency", PolarizedFractalEfficiency::new(e(), Sma::new(e(), 2), 3), PolarizedFractalEfficiency::new(e(), Sma::new(e(), 3), 4));
    cf!("EhlersFisherTransform", EhlersFisherTransform::new(e(), Ema::new(e(), 2), 3), EhlersFisherTransform::new(e(), Ema::new(e(), 3), 4));
    cf!("LaguerreFilter", LaguerreFilter::new(e(), 0.5), LaguerreFilter::new(e(), 0.8));
    cf!("LaguerreRSI", LaguerreRSI::new(e(), 3), LaguerreRSI::new(e(), 5));
    cf!("SuperSmoother", SuperSmoother::new(e(), 3), SuperSmoother::new(e(), 5));
    cf!("RoofingFilter", RoofingFilter::new(e(), 3, 2), RoofingFilter::new(e(), 4, 3));
    cf!("CyberCycle", CyberCycle::new(e(), 3), CyberCycle::new(e(), 7));
    cf!("TrendFlex", TrendFlex::new(e(), 3), TrendFlex::new(e(), 5));
    cf!("ReFlex", ReFlex::new(e(), 3), ReFlex::new(e(), 5));
    cf!("WelfordRolling", WelfordRolling::new(e()), WelfordRolling::new(Echo::<f64>::new()));
    cf!("Sma over Ema (nested)", Sma::new(Ema::new(e(), 2), 3), Sma::new(Ema::new(e(), 4), 2));
    cf!("Tanh over LaguerreFilter (nested)", Tanh::new(LaguerreFilter::new(e(), 0.5)), Tanh::new(LaguerreFilter::new(e(), 0.8)));
}

pub fn specs(quick: bool) -> Vec<Spec> {
    let mut v = vec![];
    for n in [1usize, 2, 3] {
        for e in unary_catalogue() {
            if !e.has_n && n != 1 {
                continue;
            }
            v.extend(variants(e.kind, n, &Spec::echo()));
        }
    }
    v.extend(chains(2, 2));
    v.extend(chains(3, 1));
    if !quick {
        v.extend(chains(1, 3));
        v.extend(chains(3, 3));
    }
    let pool = [Spec::echo(), Spec::un(Kind::Sma, 2, Spec::echo()), Spec::un(Kind::Ema, 2, Spec::echo()), Spec::unp(Kind::GTE, 0, vec![1.0], Spec::echo()), Spec::constant(2.0)];
    for k in BINARY {
        for a in &pool {
            for b in &pool {
                if k == Kind::Divide && !never_zero(b) {
                    continue;
                }
                v.push(Spec::bin(k, a.clone(), b.clone()));
            }
        }
    }
    v.push(Spec::echo());
    v.push(Spec::constant(1.5));
    v
}

pub fn run(ctx: &Ctx) -> CheckOutput {
    let quick = ctx.tier == Tier::Quick;
    let depth = if quick { 5 } else { 7 };
    let mut jobs: Vec<Job> = vec![];
    for spec in specs(quick) {
        let single = spec.depth() <= 2;
        jobs.push(Box::new(move || {
            let mut st = Stats::default();
            let sink = Sink::new();
            check_tree::<f64>(&spec, depth, &mut st, &sink);
            fresh_thread_twin(&spec, &mut st, &sink);
            if single {
                check_closure(&spec, if quick { 3_000 } else { 50_000 }, &mut st, &sink);
            }
            if !quick && single {
                check_tree::<f32>(&spec, depth.min(5), &mut st, &sink);
            }
            // the coarse scalar (10-bit significand): every obligation here is a bit-exact equality between
            // instances with the same history, so it holds at any precision - and exact coincidences
            // between computed quantities, on which a hidden cache or shortcut may be keyed, become reachable
            if single {
                check_tree::<crate::lo::Lo>(&spec, depth.min(if quick { 4 } else { 6 }), &mut st, &sink);
            }
            JobOut { stats: st, viols: sink.take(), samples: vec![json!({"explorer":"TREE (+CLOSURE for single views)","view":spec.name(),"depth":depth})] }
        }));
    }
    jobs.push(Box::new(move || {
        let mut st = Stats::default();
        let sink = Sink::new();
        clone_from_static(&mut st, &sink);
        JobOut { stats: st, viols: sink.take(), samples: vec![json!({"clause":"clone_from","views":"35 statically typed views, the target configured differently and holding another history","suffixes":"every sequence over {0.1,0.7,-3.3} of length 4"})] }
    }));
    for n in if quick { vec![8usize, 11] } else { vec![5, 8, 11, 16, 23] } {
        for e in unary_catalogue() {
            if !e.has_n {
                continue;
            }
            for spec in variants(e.kind, n, &Spec::echo()) {
                jobs.push(Box::new(move || {
                    let mut st = Stats::default();
                    let sink = Sink::new();
                    clone_after_slide(&spec, &mut st, &sink);
                    JobOut { stats: st, viols: sink.take(), samples: vec![json!({"explorer":"LONG","view":spec.name(),"clause":"clones taken after the window has slid, inexact letters"})] }
                }));
            }
        }
    }
    let o = run_jobs(jobs, ctx.seed);
    CheckOutput {
        stats: o.stats,
        violations: o.viols,
        samples: o.samples,
        rule: "every view (all variants, N in 1..3), every domain-compatible two-level chain, combinators over a 5-view pool: at every node of TREE(Z3 or {1,2,3}) - last() x3 pure (bits and Debug state), a clone per continuation letter equal at birth, feeding the clone leaves the original's Debug state untouched, original and clone fed the same letter agree, and a fresh twin replaying the history (with nothing interleaved) reaches the same Debug state and output, while the subject is fed interleaved with foreign instances of the same kind and other window lengths".into(),
        assumptions: vec!["state identity = derived Debug rendering of the real structs (prints every field)".into(), "Add lacks Clone: its 'clone' is a rebuilt twin".into()],
        exhaustive: true,
        bounds: json!({"depth": depth}),
    }
}
