//! C17 — views are deterministic values: last() is pure and clones are independent.

use crate::catalogue::*;
use crate::explore::{closure, guard, run_jobs, tree, Job, JobOut, Step};
use crate::report::{CheckOutput, Sink, Stats, Violation};
use crate::scalar::{opt_key, Scalar};
use crate::spec::{build, unary_catalogue, Dyn, Kind, Spec, BINARY};
use crate::{Ctx, Tier};
use serde_json::json;
use sliding_features::View;

fn alphabet(spec: &Spec) -> Vec<f64> {
    if needs_positive(spec) {
        vec![1.0, 2.0, 3.0]
    } else {
        vec![0.0, 1.0, -1.0]
    }
}

fn obs<T: Scalar>(v: &Dyn<T>) -> (String, String) {
    (format!("{:?}", v), opt_key(v.last()))
}

/// the subject plus *foreign* instances (same kind, other window lengths) that are fed
/// interleaved with it: hidden state shared between instances (a static scratch buffer, a
/// memo keyed by window length) shows as a difference from the twin, which replays the
/// subject's history with nothing in between
#[derive(Clone)]
struct Subject<T: Scalar> {
    v: Dyn<T>,
    foreign: Vec<Dyn<T>>,
}

fn foreign_specs(spec: &Spec) -> Vec<Spec> {
    let mut v = vec![];
    // same window length, other secondary parameters (a memo keyed by the window length alone)
    if spec.ch.len() <= 2 && spec.kind != Kind::Add && spec.depth() <= 2 {
        let mut kinds = vec![spec.kind];
        match spec.kind {
            Kind::Alma => kinds.push(Kind::AlmaCustom),
            Kind::AlmaCustom => kinds.push(Kind::Alma),
            Kind::Ema => kinds.push(Kind::EmaAlpha),
            Kind::EmaAlpha => kinds.push(Kind::Ema),
            _ => {}
        }
        for k in kinds {
            for f in variants(k, spec.n, &Spec::echo()) {
                if f != *spec {
                    v.push(f);
                }
            }
        }
    }
    if crate::spec::entry(spec.kind).has_n && spec.ch.len() <= 2 && spec.kind != Kind::Add {
        for dn in [1usize, 3] {
            let mut f = spec.clone();
            f.n = spec.n + dn;
            v.push(f);
        }
    }
    v
}

fn node_s<T: Scalar>(spec: &Spec, s: &mut Subject<T>, hist: &[f64], alpha: &[f64], st: &mut Stats, sink: &Sink) -> Step {
    // feed the foreign instances something the subject never sees, right before the subject works
    let positive = needs_positive(spec);
    let r = guard(|| {
        for (i, f) in s.foreign.iter_mut().enumerate() {
            f.update(T::of(if positive { 7.5 + i as f64 } else { -3.5 - i as f64 }));
            let _ = f.last();
        }
    });
    if r.is_err() {
        s.foreign.clear();
    }
    node(spec, &mut s.v, hist, alpha, st, sink)
}

/// all the C17 obligations at one node; `s` is the state before the update by `x`
fn node<T: Scalar>(spec: &Spec, s: &mut Dyn<T>, hist: &[f64], alpha: &[f64], st: &mut Stats, sink: &Sink) -> Step {
    let x = *hist.last().unwrap();
    let fail = |clause: &str, detail: String| {
        sink.push(Violation::new("C17", spec, clause, T::NAME, hist, detail));
        Step::Prune
    };
    let r = guard(|| {
        let before = obs(s);
        // (i) last() is pure
        let l1 = opt_key(s.last());
        let l2 = opt_key(s.last());
        let l3 = opt_key(s.last());
        if l1 != l2 || l2 != l3 || l1 != before.1 {
            return Err(("last-pure", format!("repeated last() calls return {} {} {} {}", before.1, l1, l2, l3)));
        }
        if obs(s).0 != before.0 {
            return Err(("last-pure", "calling last() changed the view's state".to_string()));
        }
        // (ii)-(iv) clones: equal at birth, independent, and continue like the original
        let mut via_clone: Option<(String, String)> = None;
        for &v in alpha {
            let mut c = s.clone();
            st.bump("clones_taken", 1);
            let co = obs(&c);
            if co != before {
                return Err(("clone-equal", format!("a clone differs from its original at birth: {} vs {}", co.1, before.1)));
            }
            c.update(T::of(v));
            st.transitions += 1;
            let _ = c.last();
            if obs(s) != before {
                return Err(("clone-independent", format!("feeding {} to a clone changed the original (last {} -> {})", v, before.1, opt_key(s.last()))));
            }
            if v == x {
                via_clone = Some(obs(&c));
            }
            // a second clone fed the same value must agree with the first
            let mut c2 = s.clone();
            c2.update(T::of(v));
            st.transitions += 1;
            if obs(&c2) != obs(&c) {
                return Err(("deterministic", format!("two clones fed {} disagree: {} vs {}", v, opt_key(c.last()), opt_key(c2.last()))));
            }
        }
        s.update(T::of(x));
        st.transitions += 1;
        let after = obs(s);
        st.out(s.last().map(|v| v.f()));
        if Some(&after) != via_clone.as_ref() {
            return Err(("clone-continues", format!("original reports {} after update({}) but its clone reports {}", after.1, x, via_clone.map(|c| c.1).unwrap_or_default())));
        }
        // (v) twin: a fresh instance replaying the history
        let mut twin = build::<T>(spec);
        for h in hist {
            twin.update(T::of(*h));
            st.transitions += 1;
        }
        let tw = obs(&twin);
        if tw != after {
            return Err(("twin", format!("a fresh instance fed the same history reports {} but this one reports {}", tw.1, after.1)));
        }
        Ok(())
    });
    st.oracle_evals += 1;
    match r {
        Ok(Ok(())) => Step::Go,
        Ok(Err((clause, detail))) => fail(clause, detail),
        Err(_) => {
            st.bump("panicked_steps_not_judged", 1);
            Step::Prune
        }
    }
}

fn check_tree<T: Scalar>(spec: &Spec, depth: usize, st: &mut Stats, sink: &Sink) {
    let alpha = alphabet(spec);
    let root = match guard(|| Subject { v: build::<T>(spec), foreign: foreign_specs(spec).iter().filter_map(|f| guard(|| build::<T>(f)).ok()).collect() }) {
        Ok(r) => r,
        Err(_) => {
            st.skipped_configs += 1;
            return;
        }
    };
    st.configs += 1;
    tree::<T, Subject<T>>(
        &root,
        &alpha,
        depth,
        st,
        &mut |s, hist, st| node_s(spec, s, hist, &alpha, st, sink),
        &mut |_, _| {},
    );
}

/// One replay per configuration in a thread that has never run any view: state hidden in a
/// `thread_local!` (a scratch buffer, a memo) that other instances have touched in the worker
/// thread cannot have been touched there.
fn fresh_thread_twin(spec: &Spec, st: &mut Stats, sink: &Sink) {
    let alpha = alphabet(spec);
    let len = spec.total_n() + 8;
    let hist: Vec<f64> = (0..len).map(|i| alpha[(i * 7 + i / 3) % alpha.len()]).collect();
    let run = |spec: &Spec, hist: &[f64]| -> Result<Vec<String>, String> {
        guard(|| {
            let mut v = build::<f64>(spec);
            hist.iter()
                .map(|x| {
                    v.update(*x);
                    opt_key(v.last())
                })
                .collect()
        })
    };
    let here = run(spec, &hist);
    let (s2, h2) = (spec.clone(), hist.clone());
    let there = std::thread::spawn(move || {
        crate::spec::ADD_KEEPS_HISTORY.with(|c| c.set(true));
        let r = guard(|| {
            let mut v = build::<f64>(&s2);
            h2.iter()
                .map(|x| {
                    v.update(*x);
                    opt_key(v.last())
                })
                .collect::<Vec<String>>()
        });
        r
    })
    .join();
    st.transitions += 2 * len as u64;
    st.oracle_evals += 1;
    st.bump("fresh_thread_twins", 1);
    if let (Ok(a), Ok(Ok(b))) = (here, there) {
        if a != b {
            let k = a.iter().zip(b.iter()).position(|(x, y)| x != y).unwrap_or(0);
            sink.push(Violation::new("C17", spec, "fresh-thread-twin", "f64", &hist[..=k], format!("the same view fed the same inputs reports {} in a worker thread that has run other instances, but {} in a fresh thread", a[k], b[k])));
        }
    }
}

/// Clones taken after the window has slid, on histories of non-representable values: a clone does
/// not share the physical layout of its original's buffers (a cloned VecDeque is contiguous), so
/// anything that depends on that layout - an order of summation, a capacity - shows as a clone that
/// stops agreeing with its original bit for bit.
fn clone_after_slide(spec: &Spec, st: &mut Stats, sink: &Sink) {
    let letters: [f64; 3] = if needs_positive(spec) { [0.1, 0.7, 3.3] } else { [0.1, 0.7, -3.3] };
    let w = spec.total_n().max(1);
    st.configs += 1;
    for cyc in crate::explore::cycles(&letters, 3) {
        let total = 3 * w + 16;
        let hist: Vec<f64> = (0..total).map(|i| cyc[(i * 2 + i / 5) % cyc.len()]).collect();
        let r = guard(|| {
            let mut orig = build::<f64>(spec);
            let mut clones: Vec<(usize, Dyn<f64>)> = vec![];
            for i in 0..total {
                orig.update(hist[i]);
                let o = obs(&orig);
                for (born, c) in clones.iter_mut() {
                    c.update(hist[i]);
                    if obs(c) != o {
                        return Some((i, *born, o.1.clone(), obs(c).1));
                    }
                }
                if i == w || i == 2 * w + 1 || i == 3 * w {
                    clones.push((i, orig.clone()));
                }
            }
            None
        });
        st.transitions += 3 * total as u64;
        st.states += total as u64;
        st.oracle_evals += total as u64;
        st.traces += 1;
        match r {
            Ok(Some((i, born, o, c))) => {
                sink.push(Violation::new("C17", spec, "clone-continues", "f64", &hist[..=i], format!("a clone taken after update {} and fed the same inputs as its original reports {} at update {} where the original reports {}", born + 1, c, i + 1, o)));
                return;
            }
            Ok(None) => {}
            Err(_) => {
                st.bump("panicked_steps_not_judged", 1);
                return;
            }
        }
    }
}

fn check_closure(spec: &Spec, cap: usize, st: &mut Stats, sink: &Sink) {
    let alpha = alphabet(spec);
    let root = match guard(|| build::<f64>(spec)) {
        Ok(r) => r,
        Err(_) => {
            st.skipped_configs += 1;
            return;
        }
    };
    st.configs += 1;
    closure::<Dyn<f64>>(
        root,
        &alpha,
        cap,
        40,
        st,
        &|s| format!("{:?}", s),
        &mut |s, hist, st| node(spec, s, hist, &alpha, st, sink),
        &mut |_, _| {},
    );
}

pub fn specs(quick: bool) -> Vec<Spec> {
    let mut v = vec![];
    for n in [1usize, 2, 3] {
        for e in unary_catalogue() {
            if !e.has_n && n != 1 {
                continue;
            }
            v.extend(variants(e.kind, n, &Spec::echo()));
        }
    }
    v.extend(chains(2, 2));
    v.extend(chains(3, 1));
    if !quick {
        v.extend(chains(1, 3));
        v.extend(chains(3, 3));
    }
    let pool = [Spec::echo(), Spec::un(Kind::Sma, 2, Spec::echo()), Spec::un(Kind::Ema, 2, Spec::echo()), Spec::unp(Kind::GTE, 0, vec![1.0], Spec::echo()), Spec::constant(2.0)];
    for k in BINARY {
        for a in &pool {
            for b in &pool {
                if k == Kind::Divide && !never_zero(b) {
                    continue;
                }
                v.push(Spec::bin(k, a.clone(), b.clone()));
            }
        }
    }
    v.push(Spec::echo());
    v.push(Spec::constant(1.5));
    v
}

pub fn run(ctx: &Ctx) -> CheckOutput {
    let quick = ctx.tier == Tier::Quick;
    let depth = if quick { 5 } else { 7 };
    let mut jobs: Vec<Job> = vec![];
    for spec in specs(quick) {
        let single = spec.depth() <= 2;
        jobs.push(Box::new(move || {
            let mut st = Stats::default();
            let sink = Sink::new();
            check_tree::<f64>(&spec, depth, &mut st, &sink);
            fresh_thread_twin(&spec, &mut st, &sink);
            if single {
                check_closure(&spec, if quick { 3_000 } else { 50_000 }, &mut st, &sink);
            }
            if !quick && single {
                check_tree::<f32>(&spec, depth.min(5), &mut st, &sink);
            }
            // the coarse scalar (10-bit significand): every obligation here is a bit-exact equality between
            // instances with the same history, so it holds at any precision - and exact coincidences
            // between computed quantities, on which a hidden cache or shortcut may be keyed, become reachable
            if single {
                check_tree::<crate::lo::Lo>(&spec, depth.min(if quick { 4 } else { 6 }), &mut st, &sink);
            }
            JobOut { stats: st, viols: sink.take(), samples: vec![json!({"explorer":"TREE (+CLOSURE for single views)","view":spec.name(),"depth":depth})] }
        }));
    }
    for n in if quick { vec![8usize, 11] } else { vec![5, 8, 11, 16, 23] } {
        for e in unary_catalogue() {
            if !e.has_n {
                continue;
            }
            for spec in variants(e.kind, n, &Spec::echo()) {
                jobs.push(Box::new(move || {
                    let mut st = Stats::default();
                    let sink = Sink::new();
                    clone_after_slide(&spec, &mut st, &sink);
                    JobOut { stats: st, viols: sink.take(), samples: vec![json!({"explorer":"LONG","view":spec.name(),"clause":"clones taken after the window has slid, inexact letters"})] }
                }));
            }
        }
    }
    let o = run_jobs(jobs, ctx.seed);
    CheckOutput {
        stats: o.stats,
        violations: o.viols,
        samples: o.samples,
        rule: "every view (all variants, N in 1..3), every domain-compatible two-level chain, combinators over a 5-view pool: at every node of TREE(Z3 or {1,2,3}) - last() x3 pure (bits and Debug state), a clone per continuation letter equal at birth, feeding the clone leaves the original's Debug state untouched, original and clone fed the same letter agree, and a fresh twin replaying the history (with nothing interleaved) reaches the same Debug state and output, while the subject is fed interleaved with foreign instances of the same kind and other window lengths".into(),
        assumptions: vec!["state identity = derived Debug rendering of the real structs (prints every field)".into(), "Add lacks Clone: its 'clone' is a rebuilt twin".into()],
        exhaustive: true,
        bounds: json!({"depth": depth}),
    }
}
