//! C03 — finite memory: windowed views forget everything older than the window.

use super::common::*;
use crate::alpha::*;
use crate::explore::{closure, run_jobs, tree, Job, JobOut, Step};
use crate::q::Q;
use crate::refs;
use crate::report::{CheckOutput, Sink, Stats, Violation};
use crate::scalar::{opt_key, Scalar};
use crate::spec::{build, Dyn, Kind, Spec};
use crate::{Ctx, Tier};
use serde_json::json;
use sliding_features::View;
use std::collections::HashMap;

/// (spec, K)
pub fn configs(n_max: usize) -> Vec<(Spec, usize)> {
    use Kind::*;
    let mut v = vec![];
    for n in 1..=n_max {
        for k in [Sma, Cumulative, Min, Max, WelfordOnline, Vst, Vsct, HLNormalizer, BinaryEntropy, CenterOfGravity, Cti, Net] {
            v.push((Spec::un(k, n, Spec::echo()), n));
        }
        for k in [Rsi, MyRsi, Roc] {
            v.push((Spec::un(k, n, Spec::echo()), n + 1));
        }
        v.push((Spec::un(Alma, n, Spec::echo()), 2 * n));
        if n >= 3 {
            for m in 1..=3 {
                v.push((Spec::with_ma(Pfe, n, Spec::echo(), Spec::un(Sma, m, Spec::echo())), n + m - 1));
            }
        }
    }
    v
}

pub fn configs_for(n: usize) -> Vec<(Spec, usize)> {
    configs(n).into_iter().filter(|(s, _)| s.n == n).collect()
}

/// For windows too long for Z3^K: histories prefix . base . suffix, with the suffix enumerated
/// exhaustively, compared with a fresh instance fed only the last K values of the same history.
fn large_window<T: Scalar>(spec: &Spec, k: usize, sdepth: usize, st: &mut Stats, sink: &Sink) {
    st.configs += 1;
    let prefixes: Vec<Vec<f64>> = vec![vec![1e6], vec![-1e6, 12345.678], vec![0.0, 0.0, 1e6, -1.0], vec![3.0; 5]];
    for base in super::common::bases(k) {
        let base = &base[..k.max(base.len().min(k + 2))];
        for p in &prefixes {
            T::reset_arena();
            let mut a = build::<T>(spec);
            let mut hist: Vec<f64> = p.clone();
            hist.extend_from_slice(base);
            let ok = crate::explore::guard(|| {
                for x in &hist {
                    a.update(T::of(*x));
                }
            });
            if ok.is_err() {
                continue;
            }
            let mut found = false;
            tree::<T, Dyn<T>>(
                &a,
                &Z3,
                sdepth,
                st,
                &mut |v, suffix, st| {
                    v.update(T::of(*suffix.last().unwrap()));
                    st.transitions += 1;
                    if found {
                        return Step::Prune;
                    }
                    let mut full = hist.clone();
                    full.extend_from_slice(suffix);
                    let last_k = &full[full.len() - k..];
                    let lt = to_t::<T>(last_k);
                    if holding::<T>(spec, &lt) {
                        return Step::Go;
                    }
                    let mut fresh = build::<T>(spec);
                    for x in &lt {
                        fresh.update(*x);
                    }
                    st.transitions += k as u64;
                    st.oracle_evals += 1;
                    let (g, w) = (v.last(), fresh.last());
                    st.out(g.map(|x| x.f()));
                    if !agrees(g, w, 0.0, T::inexact() > 0) {
                        sink.push(Violation::new("C03", spec, "prefix-independence", T::NAME, &full, format!("after a history of {} values the view reports {} but a fresh instance fed only its last K={} values reports {}", full.len(), show(g), k, show(w))));
                        found = true;
                        return Step::Prune;
                    }
                    Step::Go
                },
                &mut |h, m| sink.push(Violation::new("C03", spec, "panicked", T::NAME, h, m)),
            );
        }
    }
}

/// f64: at every step of every structured phase history (a plateau that slides out under a ramp,
/// ...), the output equals that of a fresh instance fed only the last K values.
fn phase_histories(spec: &Spec, k: usize, phases: usize, st: &mut Stats, sink: &Sink) {
    st.configs += 1;
    for hist in super::common::phase_drivers(spec.n.max(1), phases) {
        let r = crate::explore::guard(|| {
            let mut a = build::<f64>(spec);
            for i in 0..hist.len() {
                a.update(hist[i]);
                if i + 1 < k {
                    continue;
                }
                let last_k = &hist[i + 1 - k..=i];
                if holding::<f64>(spec, last_k) {
                    continue;
                }
                let mut f = build::<f64>(spec);
                for x in last_k {
                    f.update(*x);
                }
                let (g, w) = (a.last(), f.last());
                let scale = 1.0 + max_abs(last_k).max(w.map(|x| x.abs()).unwrap_or(0.0));
                let value_like = matches!(spec.kind, Kind::Sma | Kind::Cumulative | Kind::Alma | Kind::Pfe);
                // running sums keep residue proportional to the largest value they have seen
                let tol = if value_like { 1e-9 * (1.0 + max_abs(&hist[..=i])) } else { 1e-9 * scale };
                let ok = match (g, w) {
                    (None, None) => true,
                    (Some(x), Some(y)) => x.is_finite() && (x - y).abs() <= tol,
                    _ => false,
                };
                if !ok {
                    return Some((i, g, w));
                }
            }
            None
        });
        st.transitions += hist.len() as u64 * (k as u64 + 1);
        st.states += hist.len() as u64;
        st.oracle_evals += hist.len() as u64;
        st.traces += 1;
        match r {
            Ok(Some((i, g, w))) => {
                sink.push(Violation::new("C03", spec, "prefix-independence", "f64", &hist[..=i], format!("after this history the view reports {:?} but a fresh instance fed only its last K={} values reports {:?}", g, k, w)));
                return;
            }
            Ok(None) => {}
            Err(m) => {
                sink.push(Violation::new("C03", spec, "panicked", "f64", &hist, m));
                return;
            }
        }
    }
}

/// f64 scale families (a run past 2^16 updates, a window past 2^8, a window past 2^16 where an update
/// costs O(1)): at the boundary steps the view that has seen the whole history must agree with a
/// fresh instance fed only the last K values. Behaviour keyed on the number of updates (periodic
/// re-synchronisation, compaction, counters that wrap) is memory of something older than the window.
fn scale_fresh(spec: &Spec, k: usize, len: usize, at: &std::collections::BTreeSet<usize>, st: &mut Stats, sink: &Sink) {
    st.configs += 1;
    let value_like = matches!(spec.kind, Kind::Sma | Kind::Cumulative | Kind::Alma | Kind::Pfe);
    for (name, hist) in scale_drivers(len, spec.n.max(1)) {
        let r = crate::explore::guard(|| {
            let mut a = build::<f64>(spec);
            let started = std::time::Instant::now();
            for i in 0..hist.len() {
                if i % 4096 == 4095 && started.elapsed().as_secs() > SCALE_BUDGET_S {
                    return None; // budget (see ref_drivers_sparse)
                }
                a.update(hist[i]);
                if i + 1 < k || !at.contains(&i) {
                    continue;
                }
                let last_k = &hist[i + 1 - k..=i];
                if holding::<f64>(spec, last_k) {
                    continue;
                }
                let mut f = build::<f64>(spec);
                for x in last_k {
                    f.update(*x);
                }
                let (g, w) = (a.last(), f.last());
                let scale = 1.0 + max_abs(last_k).max(w.map(|x| x.abs()).unwrap_or(0.0));
                let tol = if value_like { 1e-9 * (1.0 + max_abs(&hist[..=i])) } else { 1e-9 * scale };
                let ok = match (g, w) {
                    (None, None) => true,
                    (Some(x), Some(y)) => x.is_finite() && (x - y).abs() <= tol,
                    _ => false,
                };
                if !ok {
                    return Some((i, g, w));
                }
            }
            None
        });
        st.transitions += hist.len() as u64 + (at.len() * k) as u64;
        st.states += hist.len() as u64;
        st.oracle_evals += at.len() as u64;
        st.traces += 1;
        match r {
            Ok(Some((i, g, w))) => {
                sink.push(Violation::new("C03", spec, "prefix-independence", "f64", &hist[..=i], format!("driver '{}': after {} updates the view reports {:?} but a fresh instance fed only its last K={} values reports {:?}", name, i + 1, g, k, w)));
                return;
            }
            Ok(None) => {}
            Err(m) => {
                sink.push(Violation::new("C03", spec, "panicked", "f64", &hist, m));
                return;
            }
        }
    }
}

/// f64: a prefix of huge magnitude (1e15..1e17) before a suffix of ordinary values. A value-like
/// output may keep rounding residue proportional to the largest magnitude seen (the running sums of
/// Sma / Alma / Cumulative do); a bounded indicator or ratio has no such excuse: its scale does not
/// depend on what preceded, so a spike that has left the window must leave no trace at all.
fn spike_prefixes(spec: &Spec, k: usize, st: &mut Stats, sink: &Sink) {
    st.configs += 1;
    // PFE hands its ratio (which is as large as the spike while the spike is the oldest value of the
    // window, see finding F12b) to the supplied moving average and so inherits that average's residue
    let value_like = matches!(spec.kind, Kind::Sma | Kind::Cumulative | Kind::Min | Kind::Max | Kind::WelfordOnline | Kind::Alma | Kind::Pfe);
    let prefixes: Vec<Vec<f64>> = vec![vec![1e17], vec![0.0, 1e17, 0.0], vec![-1e15, 1e15, 5.0], vec![1e17, -1e17, 1e17, 2.0]];
    let suffixes: Vec<Vec<f64>> = if k <= 5 {
        crate::explore::sequences(&Z3, k)
    } else {
        let mut v = vec![];
        for b in super::common::bases(k) {
            for s in crate::explore::sequences_upto(&Z3, 3) {
                let mut h = b[..k].to_vec();
                h.extend_from_slice(&s);
                v.push(h[h.len() - k..].to_vec());
            }
        }
        v
    };
    for p in &prefixes {
        let spike = p.iter().fold(0.0f64, |m, x| m.max(x.abs()));
        for s in &suffixes {
            if holding::<f64>(spec, s) {
                continue;
            }
            let r = crate::explore::guard(|| {
                let mut a = build::<f64>(spec);
                for x in p.iter().chain(s.iter()) {
                    a.update(*x);
                }
                let mut f = build::<f64>(spec);
                for x in s {
                    f.update(*x);
                }
                (a.last(), f.last())
            });
            st.transitions += (p.len() + 2 * s.len()) as u64;
            st.states += 1;
            st.traces += 1;
            st.oracle_evals += 1;
            let mut full = p.clone();
            full.extend_from_slice(s);
            match r {
                Ok((g, w)) => {
                    let tol = if value_like { 64.0 * f64::EPSILON * spike } else { 1e-9 * (1.0 + w.map(|x| x.abs()).unwrap_or(0.0)) };
                    let ok = match (g, w) {
                        (None, None) => true,
                        (Some(a), Some(b)) => a.is_finite() && (a - b).abs() <= tol,
                        _ => false,
                    };
                    if !ok {
                        sink.push(Violation::new("C03", spec, "prefix-independence", "f64", &full, format!("after a prefix of magnitude {:e} and the suffix {:?} (K={}) the view reports {:?}; a fresh instance fed the suffix alone reports {:?} (tolerance {:e})", spike, s, k, g, w, tol)).tag("after_spike"));
                        return;
                    }
                }
                Err(m) => {
                    sink.push(Violation::new("C03", spec, "panicked", "f64", &full, m));
                    return;
                }
            }
        }
    }
}

/// the statement's only exception: the view is explicitly holding its previous output
fn holding<T: Scalar>(spec: &Spec, suffix: &[T]) -> bool {
    match spec.kind {
        Kind::MyRsi => {
            let (g, l) = refs::gains_losses(suffix, spec.n);
            g + l == T::zero()
        }
        Kind::Roc => suffix[0] == T::zero(),
        _ => false,
    }
}

/// (a) exact scalar: output after prefix.suffix == output of a fresh instance fed the suffix alone
fn prefix_suffix<T: Scalar>(spec: &Spec, k: usize, pdepth: usize, st: &mut Stats, sink: &Sink) {
    st.configs += 1;
    // reference: fresh instance over every suffix in Z3^k
    let mut fresh: HashMap<Vec<u64>, String> = HashMap::new();
    {
        let Some(root) = build_or_report::<T>("C03", spec, sink) else { return };
        let mut st2 = Stats::default();
        tree::<T, Dyn<T>>(
            &root,
            &Z3,
            k,
            &mut st2,
            &mut |v, hist, _| {
                v.update(T::of(*hist.last().unwrap()));
                if hist.len() == k {
                    fresh.insert(hist.iter().map(|x| x.to_bits()).collect(), opt_key(v.last()) + "|" + &format!("{:?}", v.last().map(|x| x.f())));
                }
                Step::Go
            },
            &mut |hist, msg| sink.push(Violation::new("C03", spec, "panicked", T::NAME, hist, msg)),
        );
        st.transitions += st2.states;
    }
    let palpha = cat(&Z3, &BIG);
    let Some(root) = build_or_report::<T>("C03", spec, sink) else { return };
    // outer tree: prefixes (the empty prefix is the fresh instance itself)
    let mut prefixes: Vec<(Vec<f64>, Dyn<T>)> = vec![];
    let mut stp = Stats::default();
    tree::<T, Dyn<T>>(
        &root,
        &palpha,
        pdepth,
        &mut stp,
        &mut |v, hist, _| {
            v.update(T::of(*hist.last().unwrap()));
            prefixes.push((hist.to_vec(), v.clone()));
            Step::Go
        },
        &mut |hist, msg| sink.push(Violation::new("C03", spec, "panicked", T::NAME, hist, msg)),
    );
    st.transitions += stp.states;
    // NOTE: at Q the clones above hold arena handles created inside the tree's
    // rollback scopes, so the prefixes are re-run from scratch below instead.
    let plist: Vec<Vec<f64>> = prefixes.into_iter().map(|p| p.0).collect();
    for p in plist {
        T::reset_arena();
        let mut pv = build::<T>(spec);
        let ok = crate::explore::guard(|| {
            for x in &p {
                pv.update(T::of(*x));
            }
        });
        if ok.is_err() {
            continue;
        }
        let mut found = false;
        tree::<T, Dyn<T>>(
            &pv,
            &Z3,
            k,
            st,
            &mut |v, hist, st| {
                v.update(T::of(*hist.last().unwrap()));
                st.transitions += 1;
                if hist.len() < k || found {
                    return if found { Step::Prune } else { Step::Go };
                }
                let ht = to_t::<T>(hist);
                if holding::<T>(spec, &ht) {
                    st.bump("holding_steps_skipped", 1);
                    return Step::Go;
                }
                let key: Vec<u64> = hist.iter().map(|x| x.to_bits()).collect();
                let want = &fresh[&key];
                let got = opt_key(v.last()) + "|" + &format!("{:?}", v.last().map(|x| x.f()));
                st.oracle_evals += 1;
                st.out(v.last().map(|x| x.f()));
                let same = if T::EXACT && T::inexact() == 0 {
                    got == *want
                } else {
                    // after an irrational op: compare the f64 renderings to 1e-9
                    let g: Option<f64> = v.last().map(|x| x.f());
                    let w: Option<f64> = want.split('|').nth(1).and_then(|s| s.trim_start_matches("Some(").trim_end_matches(')').parse().ok());
                    match (g, w) {
                        (None, None) => true,
                        (Some(a), Some(b)) => (a - b).abs() <= 1e-9 * (1.0 + b.abs()),
                        _ => false,
                    }
                };
                if !same {
                    let mut full = p.clone();
                    full.extend_from_slice(hist);
                    sink.push(Violation::new(
                        "C03",
                        spec,
                        "prefix-independence",
                        T::NAME,
                        &full,
                        format!("after prefix {:?} + suffix {:?} (K={}) the view reports {} but a fresh instance fed the suffix alone reports {}", p, hist, k, got, want),
                    ));
                    found = true;
                    return Step::Prune;
                }
                Step::Go
            },
            &mut |hist, msg| sink.push(Violation::new("C03", spec, "panicked", T::NAME, hist, msg)),
        );
    }
}

/// (b) f64 CLOSURE: the map last-K-inputs -> output is single-valued over all reachable states
fn single_valued(spec: &Spec, k: usize, alpha: &[f64], cap: usize, st: &mut Stats, sink: &Sink) -> bool {
    #[derive(Clone)]
    struct S {
        v: Dyn<f64>,
        recent: Vec<f64>,
    }
    st.configs += 1;
    let mut table: HashMap<Vec<u64>, (Option<f64>, Vec<f64>)> = HashMap::new();
    let Some(v0) = build_or_report::<f64>("C03", spec, sink) else { return false };
    let root = S { v: v0, recent: vec![] };
    let res = closure::<S>(
        root,
        alpha,
        cap,
        48,
        st,
        &|s| format!("{:?}|{:?}", s.v, s.recent),
        &mut |s, hist, st| {
            let x = *hist.last().unwrap();
            s.v.update(x);
            st.transitions += 1;
            s.recent.push(x);
            if s.recent.len() > k {
                s.recent.remove(0);
            }
            if s.recent.len() < k {
                return Step::Go;
            }
            if holding::<f64>(spec, &s.recent) {
                st.bump("holding_steps_skipped", 1);
                return Step::Go;
            }
            let got = s.v.last();
            st.oracle_evals += 1;
            st.out(got);
            let key: Vec<u64> = s.recent.iter().map(|x| x.to_bits()).collect();
            let flat = refs::is_flat(refs::window(&s.recent, spec.n));
            match table.get(&key) {
                None => {
                    table.insert(key, (got, hist.to_vec()));
                }
                Some((first, fh)) => {
                    let ok = match (got, first) {
                        (None, None) => true,
                        (Some(a), Some(b)) => (a - b).abs() <= 1e-9 * (1.0 + b.abs().max(max_abs(&s.recent))),
                        _ => false,
                    };
                    if !ok {
                        sink.push(
                            Violation::new(
                                "C03",
                                spec,
                                "single-valued",
                                "f64",
                                hist,
                                format!("histories {:?} and {:?} share their last {} values but the view reports {:?} resp. {:?}", hist, fh, k, got, first),
                            )
                            .tag_if2(flat, "window_flat"),
                        );
                        return Step::Prune;
                    }
                }
            }
            Step::Go
        },
        &mut |hist, msg| sink.push(Violation::new("C03", spec, "panicked", "f64", hist, msg)),
    );
    res.closed
}

pub fn run(ctx: &Ctx) -> CheckOutput {
    let quick = ctx.tier == Tier::Quick;
    let n_max = if quick { 4 } else { 7 };
    let cap = if quick { 100_000 } else { 1_500_000 };
    let mut jobs: Vec<Job> = vec![];
    for (spec, k) in configs(n_max) {
        let pdepth = if quick {
            if k <= 4 { 3 } else if k <= 6 { 2 } else { 1 }
        } else if k <= 5 { 4 } else if k <= 7 { 3 } else if k <= 9 { 2 } else { 1 };
        {
            let spec = spec.clone();
            jobs.push(Box::new(move || {
                let mut st = Stats::default();
                let sink = Sink::new();
                prefix_suffix::<Q>(&spec, k, pdepth, &mut st, &sink);
                JobOut { stats: st, viols: sink.take(), samples: vec![json!({"explorer":"TREE x TREE","scalar":"Q","view":spec.name(),"K":k,"prefix_alphabet":cat(&Z3,&BIG),"prefix_depth":pdepth,"suffix_alphabet":Z3})] }
            }));
        }
        // (the third alphabet mixes two units, 1 and 2^-70: a history in ordinary units followed by a
        // window in a tiny unit - an absolute threshold then turns "nearly flat" into "holding" a
        // value that depends on what preceded)
        let t = 2f64.powi(-70);
        for alpha in [Z3.to_vec(), Z5.to_vec(), vec![0.0, 1.0, -1.0, t, -t]] {
            let spec = spec.clone();
            jobs.push(Box::new(move || {
                let mut st = Stats::default();
                let sink = Sink::new();
                let closed = single_valued(&spec, k, &alpha, cap, &mut st, &sink);
                JobOut { stats: st, viols: sink.take(), samples: vec![json!({"explorer":"CLOSURE","scalar":"f64","view":spec.name(),"K":k,"alphabet":alpha,"closed":closed})] }
            }));
        }
    }
    for (spec, k) in configs(n_max).into_iter().chain([7usize, 12].iter().flat_map(|n| configs_for(*n))) {
        jobs.push(Box::new(move || {
            let mut st = Stats::default();
            let sink = Sink::new();
            spike_prefixes(&spec, k, &mut st, &sink);
            JobOut { stats: st, viols: sink.take(), samples: vec![json!({"explorer":"prefix x suffix","scalar":"f64","view":spec.name(),"K":k,"prefixes":"spikes of 1e15..1e17"})] }
        }));
    }
    for n in if quick { vec![3usize, 8, 9, 13, 17] } else { vec![2, 3, 5, 8, 9, 11, 13, 16, 17, 20, 24, 33] } {
        for (spec, k) in configs_for(n) {
            let phases = if quick || n > 13 { 3 } else { 4 };
            jobs.push(Box::new(move || {
                let mut st = Stats::default();
                let sink = Sink::new();
                phase_histories(&spec, k, phases, &mut st, &sink);
                JobOut { stats: st, viols: sink.take(), samples: vec![json!({"explorer":"LONG","scalar":"f64","view":spec.name(),"K":k,"driver":format!("every sequence of <= {} phases from a menu of 8; fresh instance on the last K values at every step", phases)})] }
            }));
        }
    }
    // larger windows: prefix . base . suffix against a fresh instance fed the last K values
    for n in if quick { vec![7usize, 9, 12] } else { vec![7, 8, 9, 11, 12, 16] } {
        for (spec, k) in configs_for(n) {
            let sd = if quick { 4 } else { 6 };
            jobs.push(Box::new(move || {
                let mut st = Stats::default();
                let sink = Sink::new();
                large_window::<Q>(&spec, k, sd, &mut st, &sink);
                JobOut { stats: st, viols: sink.take(), samples: vec![json!({"explorer":"prefix x base x TREE(suffix)","scalar":"Q","view":spec.name(),"K":k,"suffix_depth":sd})] }
            }));
        }
    }
    // scale families against a fresh instance
    {
        let kinds: Vec<Spec> = configs(3).into_iter().filter(|(s, _)| s.n == 3 && (s.kind != Kind::Pfe || s.ch[1].n == 2)).map(|(s, _)| s).collect();
        for base in kinds {
            let kind = base.kind;
            let k_of = move |n: usize| match kind {
                Kind::Rsi | Kind::MyRsi | Kind::Roc => n + 1,
                Kind::Alma => 2 * n,
                Kind::Pfe => n + 1,
                _ => n,
            };
            let o1 = matches!(kind, Kind::Sma | Kind::Cumulative | Kind::Roc | Kind::BinaryEntropy);
            for (label, n, len, at) in scale_families(&k_of, quick, o1, kind == Kind::Net) {
                let spec = Spec { n, ..base.clone() };
                let k = k_of(n);
                jobs.push(Box::new(move || {
                    let mut st = Stats::default();
                    let sink = Sink::new();
                    scale_fresh(&spec, k, len, &at, &mut st, &sink);
                    JobOut { stats: st, viols: sink.take(), samples: vec![json!({"explorer":"LONG (sparse oracle)","scalar":"f64","view":spec.name(),"K":k,"family":label,"steps":len,"judged_steps":at.len(),"drivers":4})] }
                }));
            }
        }
    }
    let o = run_jobs(jobs, ctx.seed);
    CheckOutput {
        stats: o.stats,
        violations: o.viols,
        samples: o.samples,
        rule: "17 windowed views x N x (every prefix over Z3+BIG up to the stated depth, followed by every suffix in Z3^K, at Q, against a fresh instance fed the suffix alone; f64 CLOSURE over (real state, last K inputs) requiring the map last-K-inputs -> output to be single-valued)".into(),
        assumptions: vec!["the holding exception (MyRSI flat window, Roc zero base) is decided by the reference model and only those steps are skipped".into()],
        exhaustive: true,
        bounds: json!({"N": format!("1..={}", n_max), "closure_state_cap": cap}),
    }
}
