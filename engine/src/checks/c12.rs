//! C12 — normalised indicators are invariant to units, offset and sign.

use super::common::*;
use crate::alpha::*;
use crate::explore::{run_jobs, tree, Job, JobOut, Step};
use crate::q::Q;
use crate::refs;
use crate::report::{CheckOutput, Sink, Stats, Violation};
use crate::scalar::{opt_key, opt_same, Scalar};
use crate::spec::{build, mk, Dyn, Kind, Spec};
use crate::{Ctx, Tier};
use serde_json::json;
use sliding_features::View;

#[derive(Clone, Copy, Debug, PartialEq)]
enum Rel {
    /// view(a x + b) == view(x)
    Same,
    /// view(a x) == a view(x)
    Scaled,
    /// view(-x) == -view(x)
    Neg,
    /// view(-x) == 100 - view(x)
    HundredMinus,
    /// other_view(-x) == -view(x)   (Min <-> Max)
    Swap,
}

#[derive(Clone, Copy, Debug)]
struct Tr {
    a: f64,
    b: f64,
    rel: Rel,
}

const AFFINE: [Kind; 5] = [Kind::HLNormalizer, Kind::Vsct, Kind::Cti, Kind::Net, Kind::Eft];
const SCALE_INV: [Kind; 11] = [Kind::Rsi, Kind::MyRsi, Kind::LaguerreRsi, Kind::Vst, Kind::Roc, Kind::CenterOfGravity, Kind::BinaryEntropy, Kind::TrendFlex, Kind::ReFlex, Kind::LnReturn, Kind::Drawdown];
const SCALE_EQ: [Kind; 11] = [Kind::Min, Kind::Max, Kind::Sma, Kind::Ema, Kind::Alma, Kind::Cumulative, Kind::WelfordOnline, Kind::LaguerreFilter, Kind::SuperSmoother, Kind::Roofing, Kind::CyberCycle];
const NEGATES: [Kind; 8] = [Kind::HLNormalizer, Kind::Vsct, Kind::Vst, Kind::MyRsi, Kind::Cti, Kind::Net, Kind::TrendFlex, Kind::ReFlex];
/// views whose documented computation forms sums, differences, comparisons and ratios of inputs but never
/// a product of two of them (no squares, no cross terms)
const PRODUCT_FREE: [Kind; 21] = [
    Kind::HLNormalizer, Kind::Net, Kind::Eft, Kind::Rsi, Kind::MyRsi, Kind::LaguerreRsi, Kind::Roc, Kind::CenterOfGravity, Kind::BinaryEntropy, Kind::LnReturn, Kind::Drawdown,
    Kind::Min, Kind::Max, Kind::Sma, Kind::Ema, Kind::Alma, Kind::Cumulative, Kind::LaguerreFilter, Kind::SuperSmoother, Kind::Roofing, Kind::CyberCycle,
];
/// views that only ever form differences / comparisons of inputs: bit-exact under dyadic offsets in f64
const DIFF_ONLY: [Kind; 3] = [Kind::HLNormalizer, Kind::Net, Kind::Eft];

fn transforms(kind: Kind, exact: bool) -> Vec<Tr> {
    let mut v = vec![];
    // f64: powers of two only (bit-exact), including a very small and a very large unit so that
    // an absolute threshold or a hard-coded level anywhere in a view shows
    let mut scales: Vec<f64> = if exact { vec![3.0, 1.0 / 3.0, 1.4] } else { vec![2.0, 0.5, 1024.0, 2f64.powi(-70), 2f64.powi(70)] };
    // units so small / large that a *product* of two inputs under- or overflows although every input, sum,
    // difference and ratio is a normal number: only for the views that never multiply two inputs
    if !exact && PRODUCT_FREE.contains(&kind) {
        scales.extend([2f64.powi(-600), 2f64.powi(600)]);
    }
    if AFFINE.contains(&kind) {
        for a in &scales {
            v.push(Tr { a: *a, b: 0.0, rel: Rel::Same });
        }
        if exact {
            v.push(Tr { a: 1.4, b: -2.0 / 3.0, rel: Rel::Same });
            v.push(Tr { a: 1.0, b: 1000.0, rel: Rel::Same });
            v.push(Tr { a: 2.0, b: 5.0, rel: Rel::Same });
        } else if DIFF_ONLY.contains(&kind) {
            v.push(Tr { a: 1.0, b: 4.0, rel: Rel::Same });
            v.push(Tr { a: 2.0, b: -0.5, rel: Rel::Same });
            // an offset at which one ulp is the tick of the input (judged on integer histories only,
            // where x + 2^52 is exact): a level added back onto a difference no longer rounds away
            v.push(Tr { a: 1.0, b: 4503599627370496.0, rel: Rel::Same });
            v.push(Tr { a: 1.0, b: -4503599627370496.0, rel: Rel::Same });
        }
    }
    if SCALE_INV.contains(&kind) {
        for a in &scales {
            v.push(Tr { a: *a, b: 0.0, rel: Rel::Same });
        }
    }
    if SCALE_EQ.contains(&kind) {
        for a in &scales {
            v.push(Tr { a: *a, b: 0.0, rel: Rel::Scaled });
        }
    }
    if NEGATES.contains(&kind) {
        v.push(Tr { a: -1.0, b: 0.0, rel: Rel::Neg });
    }
    if kind == Kind::Rsi {
        v.push(Tr { a: -1.0, b: 0.0, rel: Rel::HundredMinus });
    }
    if kind == Kind::Min || kind == Kind::Max {
        v.push(Tr { a: -1.0, b: 0.0, rel: Rel::Swap });
    }
    v
}

#[derive(Clone)]
struct S<T: Scalar> {
    base: Dyn<T>,
    img: Vec<Dyn<T>>,
    tainted: bool,
    /// every input so far was an integer
    ints: bool,
    /// some output has entered the subnormal neighbourhood (|out| < 1e-300, non-zero): a recursion whose
    /// state is subnormal no longer scales exactly, and the lost bits feed back
    under: bool,
}

fn check<T: Scalar>(spec: &Spec, alpha: &[f64], depth: usize, st: &mut Stats, sink: &Sink) {
    check_from::<T>(spec, &[], alpha, depth, st, sink)
}

/// as `check`, but the TREE grows from the state a base history leaves behind (larger windows)
fn check_from<T: Scalar>(spec: &Spec, base: &[f64], alpha: &[f64], depth: usize, st: &mut Stats, sink: &Sink) {
    let trs = transforms(spec.kind, T::EXACT);
    if build_or_report::<T>("C12", spec, sink).is_none() {
        return;
    }
    let c0 = T::inexact();
    let img: Vec<Dyn<T>> = trs
        .iter()
        .map(|t| {
            if t.rel == Rel::Swap {
                let other = if spec.kind == Kind::Min { Kind::Max } else { Kind::Min };
                build::<T>(&Spec::un(other, spec.n, Spec::echo()))
            } else {
                build::<T>(spec)
            }
        })
        .collect();
    let mut root = S { base: build::<T>(spec), img, tainted: T::inexact() > c0, ints: true, under: false };
    st.configs += 1;
    let k = spec.n + 1;
    let mut stepf = |s: &mut S<T>, hist: &[f64], st: &mut Stats| -> Step {
            let c0 = T::inexact();
            let xf = *hist.last().unwrap();
            let x = T::of(xf);
            s.ints = s.ints && xf.fract() == 0.0;
            s.base.update(x);
            for (i, t) in trs.iter().enumerate() {
                s.img[i].update(T::of(t.a) * x + T::of(t.b));
            }
            st.transitions += 1 + trs.len() as u64;
            let o = s.base.last();
            let outs: Vec<Option<T>> = s.img.iter().map(|v| v.last()).collect();
            // (irrational operations may happen inside last(): judge exactness afterwards)
            if T::inexact() > c0 {
                s.tainted = true;
            }
            st.out(o.map(|v| v.f()));
            if !T::EXACT {
                let sub = |v: &Option<T>| v.map(|x| x.f() != 0.0 && x.f().abs() < 1e-300).unwrap_or(false);
                if sub(&o) || outs.iter().any(sub) {
                    s.under = true;
                }
            }
            // (only the last N+1 values matter for the flatness exclusions)
            let ht = to_t::<T>(&hist[hist.len().saturating_sub(k)..]);
            let flat = refs::is_flat(refs::window(&ht, k));
            // C02 defines Vst on a flat window as the value itself, which no scaling leaves
            // unchanged: the degenerate window is excluded for Vst's scale clause as well
            let vst_flat = spec.kind == Kind::Vst && refs::is_flat(refs::window(&ht, spec.n));
            for (i, t) in trs.iter().enumerate() {
                let oi = outs[i];
                if vst_flat && t.rel == Rel::Same {
                    continue;
                }
                if t.a < 0.0 && flat {
                    continue; // degenerate window: excluded by the statement for the sign clauses
                }
                if s.under && t.a > 0.0 && t.a != 1.0 {
                    continue; // underflow: the scale relations are stated barring it
                }
                if t.b.abs() > 1e15 && !s.ints {
                    continue; // x + 2^52 is exact on integers only
                }
                st.oracle_evals += 1;
                let want = match t.rel {
                    Rel::Same => o,
                    Rel::Scaled => o.map(|v| T::of(t.a) * v),
                    Rel::Neg | Rel::Swap => o.map(|v| -v),
                    Rel::HundredMinus => o.map(|v| T::of(100.0) - v),
                };
                let ok = if T::EXACT {
                    agrees(oi, want, 0.0, s.tainted)
                } else if t.a < 0.0 {
                    // the sign clauses are decided exactly at Q; in f64 only up to rounding
                    let scale = match t.rel {
                        Rel::HundredMinus => 100.0,
                        Rel::Swap => 1.0 + max_abs(hist),
                        _ => 1.0 + want.map(|w| w.f().abs()).unwrap_or(0.0),
                    };
                    agrees(oi, want, 1e-9 * scale, false)
                } else {
                    // bit-exact for power-of-two scales and dyadic offsets; +0 and -0 identified; a transient
                    // that has decayed into the subnormal range no longer scales exactly (underflow)
                    let tiny = |v: Option<T>| v.map(|x| x.f().abs() < 1e-290).unwrap_or(false);
                    opt_same(oi, want)
                        || matches!((oi, want), (Some(p), Some(q)) if p == q)
                        // (a subnormal carries fewer significant bits: one unit of the last subnormal place, seen
                        // through the scale, is allowed on top of 1e-9 relative)
                        || ((tiny(o) || tiny(oi) || tiny(want)) && matches!((oi, want), (Some(p), Some(q)) if (p.f() - q.f()).abs() <= 1e-9 * q.f().abs() + 1e-300 + 1e-323 * t.a.abs().max(1.0)))
                };
                if !ok {
                    sink.push(
                        Violation::new(
                            "C12",
                            spec,
                            match t.rel {
                                Rel::Same if t.b != 0.0 => "offset-invariance",
                                Rel::Same => "scale-invariance",
                                Rel::Scaled => "scale-equivariance",
                                Rel::Neg => "negation",
                                Rel::HundredMinus => "negation-100-minus",
                                Rel::Swap => "min-max-swap",
                            },
                            T::NAME,
                            hist,
                            format!("input mapped by x -> {}*x+{}: the view reports {} where the relation requires {} (on the unmapped input it reports {})", t.a, t.b, opt_key(oi), opt_key(want), opt_key(o)),
                        )
                        .tag_if2(flat, "window_flat")
                        .tag_if2(hist.len() < spec.n, "window_not_full"),
                    );
                    return Step::Prune;
                }
            }
            Step::Go
    };
    for i in 0..base.len() {
        match crate::explore::guard(|| stepf(&mut root, &base[..=i], st)) {
            Ok(Step::Go) => {}
            Ok(Step::Prune) => return,
            Err(m) => {
                sink.push(Violation::new("C12", spec, "panicked", T::NAME, &base[..=i], m));
                return;
            }
        }
    }
    tree::<T, S<T>>(
        &root,
        alpha,
        depth,
        st,
        &mut |s, hist, st| {
            if base.is_empty() {
                stepf(s, hist, st)
            } else {
                let mut full = base.to_vec();
                full.extend_from_slice(hist);
                stepf(s, &full, st)
            }
        },
        &mut |hist, msg| sink.push(Violation::new("C12", spec, "panicked", T::NAME, hist, msg)),
    );
}

pub fn run(ctx: &Ctx) -> CheckOutput {
    let quick = ctx.tier == Tier::Quick;
    let n_max = if quick { 4 } else { 6 };
    let mut kinds: Vec<Kind> = vec![];
    for k in AFFINE.iter().chain(SCALE_INV.iter()).chain(SCALE_EQ.iter()) {
        if !kinds.contains(k) {
            kinds.push(*k);
        }
    }
    let mut jobs: Vec<Job> = vec![];
    for kind in kinds {
        let e = crate::spec::entry(kind);
        let ns: Vec<usize> = if e.has_n { (e.min_n..=n_max.max(e.min_n)).collect() } else { vec![1] };
        for n in ns {
            let spec = mk(kind, n, Spec::echo());
            let positive = e.positive_domain;
            if kind == Kind::LaguerreFilter {
                for g in [0.0, 0.8] {
                    let spec = Spec::unp(Kind::LaguerreFilter, 0, vec![g], Spec::echo());
                    jobs.push(Box::new(move || {
                        let mut st = Stats::default();
                        let sink = Sink::new();
                        check::<f64>(&spec, &Z5, if quick { 5 } else { 7 }, &mut st, &sink);
                        check::<Q>(&spec, &Z5, if quick { 4 } else { 6 }, &mut st, &sink);
                        JobOut { stats: st, viols: sink.take(), samples: vec![] }
                    }));
                }
            }
            {
                let spec = spec.clone();
                jobs.push(Box::new(move || {
                    let mut st = Stats::default();
                    let sink = Sink::new();
                    let alpha: Vec<f64> = if positive { P4.to_vec() } else { Z5.to_vec() };
                    let depth = (n + 2).min(if quick { 5 } else { 7 });
                    if quick && n > 3 && !positive {
                        return JobOut::default();
                    }
                    check::<Q>(&spec, &alpha, depth, &mut st, &sink);
                    JobOut { stats: st, viols: sink.take(), samples: vec![json!({"explorer":"TREE","scalar":"Q","view":spec.name(),"alphabet":alpha,"depth":depth,"transforms":format!("{:?}", transforms(spec.kind, true))})] }
                }));
            }
            jobs.push(Box::new(move || {
                let mut st = Stats::default();
                let sink = Sink::new();
                let depth = (n + 3).min(if quick { 6 } else { 8 });
                if positive {
                    check::<f64>(&spec, &P4, depth, &mut st, &sink);
                } else {
                    check::<f64>(&spec, &Z5, depth, &mut st, &sink);
                    check::<f64>(&spec, &D4, depth.min(7), &mut st, &sink);
                }
                JobOut { stats: st, viols: sink.take(), samples: vec![json!({"explorer":"TREE","scalar":"f64","view":spec.name(),"depth":depth,"comparison":"bit-exact","transforms":format!("{:?}", transforms(spec.kind, false))})] }
            }));
        }
    }
    // larger windows: suffix trees grown from base histories
    for kind in AFFINE.iter().chain(SCALE_INV.iter()).chain(SCALE_EQ.iter()) {
        let e = crate::spec::entry(*kind);
        if !e.has_n || e.positive_domain {
            continue;
        }
        for n in if quick { vec![7usize, 12] } else { vec![7, 9, 12, 16, 20] } {
            let spec = mk(*kind, n, Spec::echo());
            jobs.push(Box::new(move || {
                let mut st = Stats::default();
                let sink = Sink::new();
                for b in bases(n) {
                    check_from::<f64>(&spec, &b, &Z5, if quick { 4 } else { 6 }, &mut st, &sink);
                    if !quick {
                        Q::reset();
                        check_from::<Q>(&spec, &b, &Z3, 4, &mut st, &sink);
                    }
                }
                JobOut { stats: st, viols: sink.take(), samples: vec![] }
            }));
        }
    }
    // scale families: a run past 2^16 updates and a window past 2^8, the lockstep images judged at every
    // step (drivers: the four integer-valued streams and their images under 0.7x+0.1)
    for kind in AFFINE.iter().chain(SCALE_INV.iter()).chain(SCALE_EQ.iter()) {
        let e = crate::spec::entry(*kind);
        if !e.has_n || e.positive_domain {
            continue;
        }
        for (label, n, len) in [("long run", 5usize.max(e.min_n).max(if *kind == Kind::CyberCycle { 6 } else { 1 }), 66_000usize), ("wide window", if *kind == Kind::Net { 100 } else { 300 }, 640)] {
            let spec = mk(*kind, n, Spec::echo());
            jobs.push(Box::new(move || {
                let mut st = Stats::default();
                let sink = Sink::new();
                for (_, d) in scale_drivers(len, n) {
                    check_from::<f64>(&spec, &d, &[], 0, &mut st, &sink);
                    // (a dyadic offset is exact only on values that are themselves dyadic)
                    if !DIFF_ONLY.contains(&spec.kind) {
                        let img: Vec<f64> = d.iter().map(|x| 0.7 * x + 0.1).collect();
                        check_from::<f64>(&spec, &img, &[], 0, &mut st, &sink);
                    }
                }
                JobOut { stats: st, viols: sink.take(), samples: vec![json!({"explorer":"LONG","scalar":"f64","view":spec.name(),"family":label,"steps":len,"drivers":8})] }
            }));
        }
    }
    let o = run_jobs(jobs, ctx.seed);
    CheckOutput {
        stats: o.stats,
        violations: o.viols,
        samples: o.samples,
        rule: "the four lists of the statement, view by view x N: TREE over Z5 / D4 (P4 for positive-domain views) with lockstep instances fed a*x+b; at Q (a,b) in {3, 1/3, 7/5, (7/5,-2/3), (1,1000), (2,5)} and negation, compared exactly; at f64 a in {2, 1/2, 1024}, dyadic offsets for difference-only views, compared bit-exactly; flat windows excluded for the sign clauses only".into(),
        assumptions: vec!["flatness for the sign clauses is judged on the last N+1 inputs".into()],
        exhaustive: true,
        bounds: json!({"N_max": n_max}),
    }
}
