//! C01 — chaining: a wrapper sees exactly its inner view's outputs.

use crate::alpha::*;
use crate::explore::{guard, run_jobs, tree, Job, JobOut, Step};
use crate::report::{CheckOutput, Sink, Stats, Violation};
use crate::scalar::{opt_key, opt_same, Scalar};
use crate::spec::{build, entry, mk, probe_events_clear, probe_events_take, unary_catalogue, Dyn, Kind, Spec, BINARY};
use crate::{Ctx, Tier};
use serde_json::json;
use sliding_features::View;

#[derive(Clone)]
struct S<T: Scalar> {
    chain: Dyn<T>,
    a: Dyn<T>,
    b: Option<Dyn<T>>,
}

/// inner programs: every unary view over a leaf, the bare leaf, and a Constant
fn inners(n: usize) -> Vec<Spec> {
    let mut v: Vec<Spec> = unary_catalogue().iter().map(|e| mk(e.kind, n.max(1), Spec::echo())).collect();
    v.push(Spec::echo());
    v.push(Spec::constant(2.0));
    v
}

fn unary_chain<T: Scalar>(outer: Kind, n_out: usize, inner: &Spec, alpha: &[f64], depth: usize, st: &mut Stats, sink: &Sink) {
    chain_of::<T>(&mk(outer, n_out, Spec::echo()), inner, alpha, depth, st, sink)
}

/// `outer` is any program over Echo (one or more levels); the chain is `outer` with its leaf replaced by `inner`
fn chain_of<T: Scalar>(outer: &Spec, inner: &Spec, alpha: &[f64], depth: usize, st: &mut Stats, sink: &Sink) {
    let chain_spec = outer.with_leaf(inner);
    let (probed, nprobes) = chain_spec.with_probes();
    let b_spec = outer.clone();
    let built = guard(|| S::<T> { chain: build::<T>(&probed), a: build::<T>(inner), b: Some(build::<T>(&b_spec)) });
    let root = match built {
        Ok(r) => r,
        Err(_) => {
            st.skipped_configs += 1; // constructor rejects the configuration (C15's domain)
            return;
        }
    };
    st.configs += 1;
    tree::<T, S<T>>(
        &root,
        alpha,
        depth,
        st,
        &mut |s, hist, st| {
            let xf = *hist.last().unwrap();
            let x = T::of(xf);
            probe_events_clear();
            let rc = guard(|| {
                s.chain.update(x);
                s.chain.last()
            });
            let mut ev = probe_events_take();
            let rd = guard(|| {
                s.a.update(x);
                let b = s.b.as_mut().unwrap();
                if let Some(y) = s.a.last() {
                    b.update(y);
                }
                b.last()
            });
            st.transitions += 3;
            st.oracle_evals += 1;
            match (rc, rd) {
                (Ok(c), Ok(d)) => {
                    st.out(c.map(|v| v.f()));
                    if !opt_same(c, d) {
                        sink.push(Violation::new(
                            "C01",
                            &chain_spec,
                            "chain-vs-decomposition",
                            T::NAME,
                            hist,
                            format!("the chain reports {} but stand-alone {} fed into stand-alone {} reports {}", opt_key(c), inner.name(), b_spec.name(), opt_key(d)),
                        ));
                        return Step::Prune;
                    }
                    ev.sort();
                    let want: Vec<(u32, u64)> = (0..nprobes as u32).map(|i| (i, xf.to_bits())).collect();
                    if ev != want {
                        sink.push(Violation::new(
                            "C01",
                            &chain_spec,
                            "leaf-delivery",
                            T::NAME,
                            hist,
                            format!("one update({}) delivered {:?} to the leaves (id, value); expected exactly once per leaf", xf, ev.iter().map(|(i, b)| (*i, f64::from_bits(*b))).collect::<Vec<_>>()),
                        ));
                        return Step::Prune;
                    }
                    Step::Go
                }
                (Err(_), Err(_)) => {
                    st.bump("both_sides_panicked_same_step", 1);
                    Step::Prune
                }
                (Err(m), Ok(d)) => {
                    sink.push(Violation::new("C01", &chain_spec, "panic-mismatch", T::NAME, hist, format!("the chain panicked ({}) where the decomposition reports {}", m, opt_key(d))));
                    Step::Prune
                }
                (Ok(c), Err(m)) => {
                    sink.push(Violation::new("C01", &chain_spec, "panic-mismatch", T::NAME, hist, format!("the decomposition panicked ({}) where the chain reports {}", m, opt_key(c))));
                    Step::Prune
                }
            }
        },
        &mut |hist, msg| sink.push(Violation::new("C01", &chain_spec, "panicked", T::NAME, hist, msg)),
    );
}

/// Long inexact histories for a chain: every cycle over non-representable letters, 48 updates,
/// chain vs decomposition bit-exactly at every step. Integer letters make every running sum
/// exact, which hides anything that only changes *when* a view re-derives its state.
fn chain_cycles(outer: &Spec, inner: &Spec, st: &mut Stats, sink: &Sink) {
    let chain_spec = outer.with_leaf(inner);
    let letters = [0.1, 0.7, -3.3];
    let built = guard(|| (build::<f64>(&chain_spec), build::<f64>(inner), build::<f64>(outer)));
    if built.is_err() {
        st.skipped_configs += 1;
        return;
    }
    st.configs += 1;
    for cyc in crate::explore::cycles(&letters, 3) {
        let (mut chain, mut a, mut b) = (build::<f64>(&chain_spec), build::<f64>(inner), build::<f64>(outer));
        // long enough for the outer window to fill and slide twice
        let len = 48.max(3 * outer.n + 2 * inner.n + 20);
        let hist: Vec<f64> = (0..len).map(|i| cyc[i % cyc.len()]).collect();
        for i in 0..len {
            let x = hist[i];
            let rc = guard(|| {
                chain.update(x);
                chain.last()
            });
            let rd = guard(|| {
                a.update(x);
                if let Some(y) = a.last() {
                    b.update(y);
                }
                b.last()
            });
            st.transitions += 3;
            st.oracle_evals += 1;
            match (rc, rd) {
                (Ok(c), Ok(d)) => {
                    if !opt_same(c, d) {
                        sink.push(Violation::new("C01", &chain_spec, "chain-vs-decomposition", "f64", &hist[..=i], format!("the chain reports {} but stand-alone {} fed into stand-alone {} reports {}", opt_key(c), inner.name(), outer.name(), opt_key(d))));
                        return;
                    }
                }
                (Err(_), Err(_)) => break,
                (Err(m), Ok(d)) => {
                    sink.push(Violation::new("C01", &chain_spec, "panic-mismatch", "f64", &hist[..=i], format!("the chain panicked ({}) where the decomposition reports {}", m, opt_key(d))));
                    return;
                }
                (Ok(c), Err(m)) => {
                    sink.push(Violation::new("C01", &chain_spec, "panic-mismatch", "f64", &hist[..=i], format!("the decomposition panicked ({}) where the chain reports {}", m, opt_key(c))));
                    return;
                }
            }
        }
        st.states += len as u64;
        st.traces += 1;
    }
}

fn binary_comb<T: Scalar>(kind: Kind, a: &Spec, b: &Spec, alpha: &[f64], depth: usize, st: &mut Stats, sink: &Sink) {
    let spec = Spec::bin(kind, a.clone(), b.clone());
    let (probed, nprobes) = spec.with_probes();
    let built = guard(|| S::<T> { chain: build::<T>(&probed), a: build::<T>(a), b: Some(build::<T>(b)) });
    let root = match built {
        Ok(r) => r,
        Err(_) => {
            st.skipped_configs += 1;
            return;
        }
    };
    st.configs += 1;
    tree::<T, S<T>>(
        &root,
        alpha,
        depth,
        st,
        &mut |s, hist, st| {
            let xf = *hist.last().unwrap();
            let x = T::of(xf);
            probe_events_clear();
            let rc = guard(|| {
                s.chain.update(x);
                s.chain.last()
            });
            let mut ev = probe_events_take();
            let rd = guard(|| {
                s.a.update(x);
                let b = s.b.as_mut().unwrap();
                b.update(x);
                (s.a.last(), b.last())
            });
            st.transitions += 3;
            st.oracle_evals += 1;
            match (rc, rd) {
                (Ok(c), Ok((la, lb))) => {
                    st.out(c.map(|v| v.f()));
                    if c.is_some() != (la.is_some() && lb.is_some()) {
                        sink.push(Violation::new(
                            "C01",
                            &spec,
                            "reports-iff-both-children",
                            T::NAME,
                            hist,
                            format!("the combinator reports {} while its children report {} and {}", opt_key(c), opt_key(la), opt_key(lb)),
                        ));
                        return Step::Prune;
                    }
                    ev.sort();
                    let want: Vec<(u32, u64)> = (0..nprobes as u32).map(|i| (i, xf.to_bits())).collect();
                    if ev != want {
                        sink.push(Violation::new(
                            "C01",
                            &spec,
                            "leaf-delivery",
                            T::NAME,
                            hist,
                            format!("one update({}) delivered {:?} to the leaves (id, value); expected exactly once per leaf", xf, ev.iter().map(|(i, b)| (*i, f64::from_bits(*b))).collect::<Vec<_>>()),
                        ));
                        return Step::Prune;
                    }
                    Step::Go
                }
                // a child leaving its domain (division by zero assertion etc.) is not C01's matter
                _ => {
                    st.bump("panicked_steps_not_judged", 1);
                    Step::Prune
                }
            }
        },
        &mut |hist, msg| sink.push(Violation::new("C01", &spec, "panicked", T::NAME, hist, msg)),
    );
}

/// A few statically typed chains (no `Dyn` in between): the harness's type erasure forwards only
/// `update` and `last`, so a wrapper that obtained something from its inner view through any other
/// trait method would go unnoticed behind it. Every sequence over Z3 of length <= 7 and every cycle
/// over non-representable letters (48 updates).
fn static_chains(st: &mut Stats, sink: &Sink) {
    use sliding_features::pure_functions::Echo;
    use sliding_features::rolling::{LnReturn, WelfordRolling};
    use sliding_features::sliding_windows::*;
    let mut drivers: Vec<Vec<f64>> = crate::explore::sequences(&Z3, 7);
    for cyc in crate::explore::cycles(&[0.1, 0.7, -3.3], 3) {
        drivers.push((0..48).map(|i| cyc[i % cyc.len()]).collect());
    }
    macro_rules! chain {
        ($name:expr, $chain:expr, $a:expr, $b:expr) => {{
            st.configs += 1;
            'drv: for h in &drivers {
                let (mut chain, mut a, mut b) = ($chain, $a, $b);
                for (i, x) in h.iter().enumerate() {
                    let r = guard(|| {
                        chain.update(*x);
                        a.update(*x);
                        if let Some(y) = a.last() {
                            b.update(y);
                        }
                        (chain.last(), b.last())
                    });
                    st.transitions += 3;
                    st.oracle_evals += 1;
                    match r {
                        Ok((c, d)) => {
                            if !opt_same::<f64>(c, d) {
                                sink.push(Violation::new("C01", &Spec::echo(), "chain-vs-decomposition", "f64", &h[..=i], format!("statically typed chain {}: the chain reports {} but its stand-alone parts report {}", $name, opt_key(c), opt_key(d))));
                                break 'drv;
                            }
                        }
                        Err(_) => continue 'drv,
                    }
                }
                st.traces += 1;
            }
        }};
    }
    let e = Echo::<f64>::new;
    chain!("Sma(Ema(Echo,2),3)", Sma::new(Ema::new(e(), 2), 3), Ema::new(e(), 2), Sma::new(e(), 3));
    chain!("Ema(Sma(Echo,3),2)", Ema::new(Sma::new(e(), 3), 2), Sma::new(e(), 3), Ema::new(e(), 2));
    chain!("Vst(Sma(Echo,2),3)", Vst::new(Sma::new(e(), 2), 3), Sma::new(e(), 2), Vst::new(e(), 3));
    chain!("Vsct(Ema(Echo,3),2)", Vsct::new(Ema::new(e(), 3), 2), Ema::new(e(), 3), Vsct::new(e(), 2));
    chain!("Rsi(Roc(Echo,2),3)", Rsi::new(Roc::new(e(), 2), 3), Roc::new(e(), 2), Rsi::new(e(), 3));
    chain!("MyRSI(Sma(Echo,2),3)", MyRSI::new(Sma::new(e(), 2), 3), Sma::new(e(), 2), MyRSI::new(e(), 3));
    chain!("HLNormalizer(Sma(Echo,2),3)", HLNormalizer::new(Sma::new(e(), 2), 3), Sma::new(e(), 2), HLNormalizer::new(e(), 3));
    chain!("SuperSmoother(HLNormalizer(Ema(Echo,2),2),2)", SuperSmoother::new(HLNormalizer::new(Ema::new(e(), 2), 2), 2), Ema::new(e(), 2), SuperSmoother::new(HLNormalizer::new(e(), 2), 2));
    chain!("RoofingFilter(Sma(Echo,2),3,2)", RoofingFilter::new(Sma::new(e(), 2), 3, 2), Sma::new(e(), 2), RoofingFilter::new(e(), 3, 2));
    chain!("WelfordRolling(Sma(Echo,3))", WelfordRolling::new(Sma::new(e(), 3)), Sma::new(e(), 3), WelfordRolling::new(e()));
    chain!("Cumulative(Min(Echo,2),3)", Cumulative::new(Min::new(e(), 2), 3), Min::new(e(), 2), Cumulative::new(e(), 3));
    chain!("LnReturn(Cumulative(Echo,3))", LnReturn::new(Cumulative::new(e(), 3)), Cumulative::new(e(), 3), LnReturn::new(e()));
    chain!("TrendFlex(Ema(Echo,2),3)", TrendFlex::new(Ema::new(e(), 2), 3), Ema::new(e(), 2), TrendFlex::new(e(), 3));
    chain!("NoiseEliminationTechnology(MyRSI(Echo,3),3)", NoiseEliminationTechnology::new(MyRSI::new(e(), 3), 3), MyRSI::new(e(), 3), NoiseEliminationTechnology::new(e(), 3));
}

/// every unary wrapper directly over each of ten inner views, statically typed
fn static_grid(ok: Kind, st: &mut Stats, sink: &Sink) {
    use crate::static_zoo as z;
    let mut drivers: Vec<Vec<f64>> = crate::explore::sequences(&Z3, 6);
    for cyc in crate::explore::cycles(&[0.1, 0.7, -3.3], 3) {
        drivers.push((0..40).map(|i| cyc[i % cyc.len()]).collect());
    }
    for ik in z::INNER_KINDS {
        for (no, ni) in [(2usize, 3usize), (3, 2), (5, 7)] {
            let label = mk(ok, no, mk(ik, ni, Spec::echo()));
            if guard(|| (z::chain(ok, no, ik, ni).is_some(), z::single(ik, ni).is_some(), z::single(ok, no).is_some())).map(|t| !(t.0 && t.1 && t.2)).unwrap_or(true) {
                st.skipped_configs += 1;
                continue;
            }
            st.configs += 1;
            // the same chain with the harness's type erasure between the views (what every other check
            // explores): an outer view may see nothing of its inner view but update() and last(), so the
            // two must agree bit for bit
            let adj = |k: Kind, n: usize| match k {
                Kind::Pfe => n.max(3),
                Kind::Roofing => n.max(2),
                _ => n,
            };
            let erased_spec = mk(ok, adj(ok, no), mk(ik, adj(ik, ni), Spec::echo()));
            'drv: for h in &drivers {
                let (mut chain, mut a, mut b) = (z::chain(ok, no, ik, ni).unwrap(), z::single(ik, ni).unwrap(), z::single(ok, no).unwrap());
                let Ok(mut erased) = guard(|| build::<f64>(&erased_spec)) else { continue 'drv };
                for (i, x) in h.iter().enumerate() {
                    let r = guard(|| {
                        chain.upd(*x);
                        a.upd(*x);
                        if let Some(y) = a.get() {
                            b.upd(y);
                        }
                        erased.update(*x);
                        (chain.get(), b.get(), erased.last())
                    });
                    st.transitions += 4;
                    st.oracle_evals += 2;
                    match r {
                        Ok((c, d, e)) => {
                            if !opt_same::<f64>(c, d) {
                                sink.push(Violation::new("C01", &label, "chain-vs-decomposition", "f64", &h[..=i], format!("statically typed chain: the chain reports {} but its stand-alone parts report {}", opt_key(c), opt_key(d))).tag("static"));
                                break 'drv;
                            }
                            if !opt_same::<f64>(c, e) {
                                sink.push(Violation::new("C01", &label, "static-vs-erased", "f64", &h[..=i], format!("the statically typed chain reports {} but the same chain whose views see each other only through update() and last() reports {}", opt_key(c), opt_key(e))).tag("static"));
                                break 'drv;
                            }
                        }
                        Err(_) => continue 'drv,
                    }
                }
                st.traces += 1;
            }
        }
    }
}

/// every view directly over the crate's own Echo, statically typed, against the same view over the
/// harness's erased leaf (the form every other check explores)
fn static_singles(k: Kind, st: &mut Stats, sink: &Sink) {
    use crate::static_zoo as z;
    let mut drivers: Vec<Vec<f64>> = crate::explore::sequences(&Z3, 7);
    for cyc in crate::explore::cycles(&[0.1, 0.7, -3.3], 3) {
        drivers.push((0..60).map(|i| cyc[i % cyc.len()]).collect());
    }
    for n in [1usize, 2, 3, 5, 8] {
        let n_adj = match k {
            Kind::Pfe => n.max(3),
            Kind::Roofing => n.max(2),
            _ => n,
        };
        let spec = mk(k, n_adj, Spec::echo());
        if guard(|| z::single(k, n).is_some()).unwrap_or(false) == false || guard(|| build::<f64>(&spec)).is_err() {
            st.skipped_configs += 1;
            continue;
        }
        st.configs += 1;
        'drv: for h in &drivers {
            let (mut s, mut e) = (z::single(k, n).unwrap(), build::<f64>(&spec));
            for (i, x) in h.iter().enumerate() {
                let r = guard(|| {
                    s.upd(*x);
                    e.update(*x);
                    (s.get(), e.last())
                });
                st.transitions += 2;
                st.oracle_evals += 1;
                match r {
                    Ok((c, d)) => {
                        if !opt_same::<f64>(c, d) {
                            sink.push(Violation::new("C01", &spec, "static-vs-erased", "f64", &h[..=i], format!("the view directly over Echo reports {} but over a leaf it sees only through update() and last() it reports {}", opt_key(c), opt_key(d))).tag("static"));
                            break 'drv;
                        }
                    }
                    Err(_) => continue 'drv,
                }
            }
            st.traces += 1;
        }
        if !entry(k).has_n {
            break;
        }
    }
}

pub fn run(ctx: &Ctx) -> CheckOutput {
    let quick = ctx.tier == Tier::Quick;
    let (outer_ns, inner_ns, depth): (Vec<usize>, Vec<usize>, usize) = if quick { (vec![1, 2, 3, 4], vec![1, 2, 3], 7) } else { (vec![1, 2, 3, 4, 5, 6], vec![1, 2, 3, 4], 9) };
    let alphas: Vec<Vec<f64>> = if quick { vec![Z3.to_vec(), Z5.to_vec()] } else { vec![Z3.to_vec(), Z5.to_vec(), D4.to_vec()] };
    let mut jobs: Vec<Job> = vec![];
    for e in unary_catalogue() {
        let ons: Vec<usize> = if e.has_n { outer_ns.clone() } else { vec![1] };
        for on in ons {
            for inn in inner_ns.clone() {
                let alphas = alphas.clone();
                jobs.push(Box::new(move || {
                    let mut st = Stats::default();
                    let sink = Sink::new();
                    for inner in inners(inn) {
                        if inn > 1 && !crate::spec::entry(inner.kind).has_n {
                            continue; // N-less inner views are covered once
                        }
                        for alpha in &alphas {
                            let d = if alpha.len() > 3 { depth.min(if quick { 5 } else { 7 }) } else { depth };
                            unary_chain::<f64>(e.kind, on, &inner, alpha, d, &mut st, &sink);
                        }
                        // the coarse scalar (10-bit significand): chain == decomposition is a bit-exact equality at
                        // any precision, and coincidences between computed quantities become reachable (letters exactly
                        // representable in the format, so that the leaves are handed the letters themselves)
                        if on <= 3 && inn <= 2 {
                            unary_chain::<crate::lo::Lo>(e.kind, on, &inner, &[0.125, 0.75, -3.25], if quick { 5 } else { 7 }, &mut st, &sink);
                        }
                    }
                    JobOut { stats: st, viols: sink.take(), samples: vec![json!({"explorer":"TREE","scalar":"f64","outer":format!("{:?}({})", e.kind, on),"inner":"every catalogue view over a leaf, window","inner_n":inn,"depth":depth})] }
                }));
            }
        }
    }
    // every two-level chain again on long histories of non-representable values
    for e in unary_catalogue() {
        jobs.push(Box::new(move || {
            let mut st = Stats::default();
            let sink = Sink::new();
            // (wide outer windows: code paths chosen by the window length must still see only the inner output)
            for (on, inn) in if quick { vec![(2usize, 2usize), (3, 2), (17, 2), (33, 3)] } else { vec![(2, 2), (3, 2), (2, 3), (5, 3), (9, 4), (16, 2), (17, 2), (24, 5), (33, 3), (64, 7), (65, 2)] } {
                let outer = mk(e.kind, on, Spec::echo());
                for inner in inners(inn) {
                    chain_cycles(&outer, &inner, &mut st, &sink);
                }
            }
            JobOut { stats: st, viols: sink.take(), samples: vec![json!({"explorer":"LONG","outer":format!("{:?}", e.kind),"inner":"every catalogue view","driver":"every cycle over {0.1, 0.7, -3.3} of period<=3, 48 updates"})] }
        }));
    }
    // three-level chains C(B(A(leaf))), decomposed as stand-alone A feeding the two-level chain
    // C(B(Echo)): a middle view that reports a value before it was delivered anything is consumed
    // by C as if it were data, which only this association of the chain exposes
    {
        use Kind::*;
        let kinds: Vec<(Kind, usize)> = if quick {
            vec![(Sma, 2), (Ema, 2), (HLNormalizer, 2), (Cti, 2), (SuperSmoother, 2), (Vst, 2), (Drawdown, 0), (WelfordOnline, 1)]
        } else {
            vec![(Sma, 2), (Ema, 2), (Roc, 2), (Cumulative, 2), (Min, 2), (Vst, 2), (Rsi, 2), (MyRsi, 2), (SuperSmoother, 2), (GTE, 0), (Tanh, 0), (HLNormalizer, 2), (Cti, 3), (Drawdown, 0), (WelfordOnline, 1), (Vsct, 1), (LnReturn, 0), (Net, 3)]
        };
        let pool: Vec<Spec> = kinds.iter().map(|(k, n)| mk(*k, *n, Spec::echo())).collect();
        let d3 = if quick { 5 } else { 7 };
        for c in pool.clone() {
            let pool = pool.clone();
            jobs.push(Box::new(move || {
                let mut st = Stats::default();
                let sink = Sink::new();
                for b in &pool {
                    let outer = c.with_leaf(b);
                    for a in &pool {
                        chain_of::<f64>(&outer, a, &Z3, d3, &mut st, &sink);
                    }
                }
                JobOut { stats: st, viols: sink.take(), samples: vec![json!({"explorer":"TREE","three_level_chains":"C(B(A(leaf)))","C":c.name(),"pool":pool.len(),"depth":d3})] }
            }));
        }
    }
    jobs.push(Box::new(move || {
        let mut st = Stats::default();
        let sink = Sink::new();
        static_chains(&mut st, &sink);
        JobOut { stats: st, viols: sink.take(), samples: vec![json!({"explorer":"TREE+LONG","clause":"14 statically typed chains (no type erasure)","drivers":"Z3^7 and every cycle over {0.1,0.7,-3.3} of period<=3"})] }
    }));
    for e in unary_catalogue() {
        jobs.push(Box::new(move || {
            let mut st = Stats::default();
            let sink = Sink::new();
            static_grid(e.kind, &mut st, &sink);
            static_singles(e.kind, &mut st, &sink);
            JobOut { stats: st, viols: sink.take(), samples: vec![json!({"explorer":"TREE+LONG","clause":"statically typed outer over ten inner views","outer":format!("{:?}", e.kind)})] }
        }));
    }
    // binary combinators over every ordered pair
    let pool = inners(2);
    for k in BINARY {
        for a in pool.clone() {
            let pool = pool.clone();
            let alphas = alphas.clone();
            jobs.push(Box::new(move || {
                let mut st = Stats::default();
                let sink = Sink::new();
                for b in &pool {
                    binary_comb::<f64>(k, &a, b, &alphas[0], depth.min(6), &mut st, &sink);
                }
                JobOut { stats: st, viols: sink.take(), samples: vec![json!({"explorer":"TREE","combinator":format!("{:?}", k),"left":a.name(),"right":"every catalogue view"})] }
            }));
        }
    }
    let o = run_jobs(jobs, ctx.seed);
    CheckOutput {
        stats: o.stats,
        violations: o.viols,
        samples: o.samples,
        rule: "every unary wrapper (34 kinds) over every inner view (34 kinds + leaf + Constant) x window lengths, every binary combinator over every ordered pair: TREE over the alphabet; at every node the chain's output is compared bit-exactly with stand-alone inner -> stand-alone outer, and the Probe leaves must have received the raw input exactly once".into(),
        assumptions: vec!["a step at which both the chain and its decomposition panic is equivalent behaviour (panics are C15's matter)".into()],
        exhaustive: true,
        bounds: json!({"outer_N": outer_ns, "inner_N": inner_ns, "depth": depth, "alphabets": alphas}),
    }
}
