//! C06 — trend indicators are true correlation measures of the window.

use super::common::*;
use crate::alpha::*;
use crate::explore::{run_jobs, tree, Job, JobOut, Step};
use crate::q::Q;
use crate::refs;
use crate::report::{CheckOutput, Sink, Stats, Violation};
use crate::scalar::Scalar;
use crate::spec::{build, Dyn, Kind, Spec};
use crate::{Ctx, Tier};
use serde_json::json;
use sliding_features::View;

pub fn oracle<T: Scalar>(kind: Kind, n: usize, h: &[T], _hf: &[f64], v: &Dyn<T>, out: &mut Vec<Cmp<T>>) {
    if h.len() < n {
        return; // "at every step once the window is full"
    }
    let got = v.last();
    let w = refs::window(h, n);
    let flat = refs::is_flat(w);
    let inc = refs::strictly_increasing(w);
    let dec = refs::strictly_decreasing(w);
    let ties = {
        let mut s: Vec<f64> = w.iter().map(|x| x.f()).collect();
        s.sort_by(|a, b| a.partial_cmp(b).unwrap());
        s.windows(2).any(|p| p[0] == p[1])
    };
    match kind {
        Kind::Cti => {
            out.push(Cmp::new("pearson", got, Some(refs::pearson_time(w)), 1e-9).tag_if(flat, "window_flat"));
            if refs::arithmetic_progression(w) && inc {
                out.push(Cmp::new("linear-rising->+1", got, Some(T::one()), 1e-9));
            }
            if refs::arithmetic_progression(w) && dec {
                out.push(Cmp::new("linear-falling->-1", got, Some(-T::one()), 1e-9));
            }
        }
        Kind::Net => {
            out.push(
                Cmp::new("kendall", got, Some(refs::kendall_time(w)), 1e-9)
                    .tag_if(flat, "window_flat")
                    .tag_if(ties, "window_has_ties"),
            );
            if inc {
                out.push(Cmp::new("rising->+1", got, Some(T::one()), 1e-9));
            }
            if dec {
                out.push(Cmp::new("falling->-1", got, Some(-T::one()), 1e-9));
            }
        }
        Kind::CenterOfGravity => {
            let m = w.iter().fold(0.0f64, |m, x| m.max(x.f().abs()));
            let want = refs::center_of_gravity(w);
            out.push(Cmp::new("cog", got, Some(want), 1e-9 * (1.0 + want.f().abs()) * (1.0 + m)).tag_if(flat, "window_flat"));
            if flat && w[0] != T::zero() {
                out.push(Cmp::new("constant->0", got, Some(T::zero()), 1e-9));
            }
        }
        _ => unreachable!(),
    }
}

/// metamorphic corollaries on lockstep pairs: sign flip under negation (CTI,
/// NET), order-only dependence (NET under a strictly increasing relabelling).
fn pair_tree<T: Scalar>(kind: Kind, n: usize, alpha: &[f64], depth: usize, relabel: bool, st: &mut Stats, sink: &Sink) {
    let spec = Spec::un(kind, n, Spec::echo());
    #[derive(Clone)]
    struct S<T: Scalar> {
        a: Dyn<T>,
        b: Dyn<T>,
    }
    if build_or_report::<T>("C06", &spec, sink).is_none() {
        return;
    }
    let root = S { a: build::<T>(&spec), b: build::<T>(&spec) };
    st.configs += 1;
    // Z5 = (0, 1, -1, -2, 3) -> strictly increasing relabelling of (-2,-1,0,1,3) to (-10,-1,0,0.5,100)
    let map = |x: f64| -> f64 {
        if !relabel {
            return -x;
        }
        match x as i64 {
            -2 => -10.0,
            -1 => -1.0,
            0 => 0.0,
            1 => 0.5,
            3 => 100.0,
            _ => x,
        }
    };
    let clause = if relabel { "order-only" } else { "negation" };
    tree::<T, S<T>>(
        &root,
        alpha,
        depth,
        st,
        &mut |s, hist, st| {
            let x = *hist.last().unwrap();
            s.a.update(T::of(x));
            s.b.update(T::of(map(x)));
            st.transitions += 2;
            if hist.len() < n {
                return Step::Go;
            }
            let (a, b) = (s.a.last(), s.b.last());
            let want = if relabel { a } else { a.map(|v| -v) };
            st.oracle_evals += 1;
            // sqrt in CTI is applied to the same rational on both sides
            if !agrees(b, want, 1e-9, true) {
                sink.push(Violation::new(
                    "C06",
                    &spec,
                    clause,
                    T::NAME,
                    hist,
                    format!("view(x) = {}, view(mapped x) = {}, expected {}", show(a), show(b), show(want)),
                ));
                return Step::Prune;
            }
            Step::Go
        },
        &mut |hist, msg| sink.push(Violation::new("C06", &spec, "panicked", T::NAME, hist, msg)),
    );
}

pub fn run(ctx: &Ctx) -> CheckOutput {
    let quick = ctx.tier == Tier::Quick;
    let n_max = if quick { 6 } else { 10 };
    let mut jobs: Vec<Job> = vec![];
    for kind in [Kind::Cti, Kind::Net, Kind::CenterOfGravity] {
        for n in 3..=n_max {
            let spec = Spec::un(kind, n, Spec::echo());
            for (alpha, depth) in [(Z3.to_vec(), (n + 3).min(if quick { 10 } else { 12 })), (Z5.to_vec(), (n + 2).min(if quick { 7 } else { 8 }))] {
                {
                    let (spec, alpha) = (spec.clone(), alpha.clone());
                    jobs.push(Box::new(move || {
                        let mut st = Stats::default();
                        let sink = Sink::new();
                        ref_tree::<Q>("C06", &spec, &alpha, depth, &mut st, &sink, &|h, hf, v, out| {
                            oracle::<Q>(kind, n, h, hf, v, out)
                        });
                        JobOut { stats: st, viols: sink.take(), samples: vec![json!({"explorer":"TREE","scalar":"Q","view":spec.name(),"alphabet":alpha,"depth":depth})] }
                    }));
                }
                {
                    let (spec, alpha) = (spec.clone(), alpha.clone());
                    jobs.push(Box::new(move || {
                        let mut st = Stats::default();
                        let sink = Sink::new();
                        ref_tree::<f64>("C06", &spec, &alpha, depth, &mut st, &sink, &|h, hf, v, out| {
                            oracle::<f64>(kind, n, h, hf, v, out)
                        });
                        JobOut { stats: st, viols: sink.take(), samples: vec![json!({"explorer":"TREE","scalar":"f64","view":spec.name(),"alphabet":alpha,"depth":depth})] }
                    }));
                }
                if alpha.len() == 5 {
                    let spec = spec.clone();
                    jobs.push(Box::new(move || {
                        let mut st = Stats::default();
                        let sink = Sink::new();
                        ref_tree::<f32>("C06", &spec, &Z5, (n + 2).min(6), &mut st, &sink, &|h, hf, v, out| oracle::<f32>(kind, n, h, hf, v, out));
                        JobOut { stats: st, viols: sink.take(), samples: vec![] }
                    }));
                }
                {
                    let (spec, alpha) = (spec.clone(), alpha.clone());
                    let cap = if quick { 60_000 } else { 1_000_000 };
                    jobs.push(Box::new(move || {
                        let mut st = Stats::default();
                        let sink = Sink::new();
                        let closed = ref_closure::<f64>("C06", &spec, &alpha, n, cap, 40, &mut st, &sink, &|h, hf, v, out| oracle::<f64>(kind, n, h, hf, v, out));
                        JobOut { stats: st, viols: sink.take(), samples: vec![json!({"explorer":"CLOSURE","scalar":"f64","view":spec.name(),"alphabet":alpha,"closed":closed})] }
                    }));
                }
                if kind != Kind::CenterOfGravity {
                    let alpha = alpha.clone();
                    jobs.push(Box::new(move || {
                        let mut st = Stats::default();
                        let sink = Sink::new();
                        pair_tree::<Q>(kind, n, &alpha, depth.min(8), false, &mut st, &sink);
                        if kind == Kind::Net && alpha.len() == 5 {
                            pair_tree::<Q>(kind, n, &alpha, depth.min(8), true, &mut st, &sink);
                        }
                        JobOut { stats: st, viols: sink.take(), samples: vec![] }
                    }));
                }
            }
        }
    }
    for kind in [Kind::Cti, Kind::Net, Kind::CenterOfGravity] {
        for n in if quick { vec![3usize, 5, 8, 9, 13, 17, 24] } else { (3..=18).chain([20, 24, 33, 40]).collect() } {
            let spec = Spec::un(kind, n, Spec::echo());
            let phases = if quick { 3 } else { 4 };
            jobs.push(Box::new(move || {
                let mut st = Stats::default();
                let sink = Sink::new();
                let d = phase_drivers(n, phases);
                ref_drivers::<f64>("C06", &spec, &d, &mut st, &sink, &|h, hf, v, out| oracle::<f64>(kind, n, h, hf, v, out));
                if n <= 9 {
                    ref_drivers::<Q>("C06", &spec, &phase_drivers(n, 2), &mut st, &sink, &|h, hf, v, out| oracle::<Q>(kind, n, h, hf, v, out));
                }
                JobOut { stats: st, viols: sink.take(), samples: vec![json!({"explorer":"LONG","view":spec.name(),"driver":format!("every sequence of <= {} phases from a menu of 8", phases)})] }
            }));
        }
    }
    for kind in [Kind::Cti, Kind::Net, Kind::CenterOfGravity] {
        for n in [3usize, 5] {
            let spec = Spec::un(kind, n, Spec::echo());
            let len = if quick { 300 } else { 1200 };
            jobs.push(Box::new(move || {
                let mut st = Stats::default();
                let sink = Sink::new();
                ref_long_cycles::<f64>("C06", &spec, &Z5, 3, len, &mut st, &sink, &|h, hf, v, out| oracle::<f64>(kind, n, h, hf, v, out));
                JobOut { stats: st, viols: sink.take(), samples: vec![json!({"explorer":"LONG","scalar":"f64","view":spec.name(),"driver":"every Z5 cycle of period<=3","steps":len})] }
            }));
        }
    }
    for kind in [Kind::Cti, Kind::Net, Kind::CenterOfGravity] {
        for n in if quick { vec![7usize, 9, 12] } else { vec![9, 11, 12, 16, 20] } {
            let spec = Spec::un(kind, n, Spec::echo());
            let depth = if quick { 5 } else { 7 };
            jobs.push(Box::new(move || {
                let mut st = Stats::default();
                let sink = Sink::new();
                ref_tree_from_bases::<Q>("C06", &spec, &bases(n), &Z3, depth, &mut st, &sink, &|h, hf, v, out| oracle::<Q>(kind, n, h, hf, v, out));
                ref_tree_from_bases::<f64>("C06", &spec, &bases(n), &Z5, depth, &mut st, &sink, &|h, hf, v, out| oracle::<f64>(kind, n, h, hf, v, out));
                JobOut { stats: st, viols: sink.take(), samples: vec![json!({"explorer":"TREE from base histories","view":spec.name(),"bases":3,"suffix_depth":depth})] }
            }));
        }
    }
    // a spike of 1e15..1e17 before ordinary values: once it has left the window the definition over the
    // window must hold again (a correlation has no scale: nothing of the spike may remain)
    for kind in [Kind::Cti, Kind::Net, Kind::CenterOfGravity] {
        for n in if quick { vec![3usize, 5, 8, 13] } else { vec![3, 4, 5, 6, 8, 9, 13, 16, 24] } {
            let spec = Spec::un(kind, n, Spec::echo());
            jobs.push(Box::new(move || {
                let mut st = Stats::default();
                let sink = Sink::new();
                for p in [vec![1e17], vec![0.0, 1e17, 0.0], vec![-1e15, 1e15, 5.0], vec![1e17, -1e17, 1e17, 2.0]] {
                    let drivers: Vec<(&'static str, Vec<f64>)> = phase_drivers(n, 2).into_iter().map(|d| ("spike prefix, then phases", cat(&p, &d))).collect();
                    let len = drivers.iter().map(|d| d.1.len()).max().unwrap_or(0);
                    let at: std::collections::BTreeSet<usize> = (p.len() + n - 1..len).collect();
                    ref_drivers_sparse::<f64>("C06", &spec, &drivers, &at, &mut st, &sink, &|h, hf, v, out| oracle::<f64>(kind, n, h, hf, v, out));
                }
                JobOut { stats: st, viols: sink.take(), samples: vec![json!({"explorer":"LONG","scalar":"f64","view":spec.name(),"driver":"4 spike prefixes (1e15..1e17) x every sequence of <= 2 phases; judged once the spike has left the window"})] }
            }));
        }
    }
    // scale families: a run past 2^16 updates, a window past 2^8
    for kind in [Kind::Cti, Kind::Net, Kind::CenterOfGravity] {
        for (label, n, len, at) in scale_families(&|n| n, quick, false, kind == Kind::Net) {
            let spec = Spec::un(kind, n, Spec::echo());
            jobs.push(Box::new(move || {
                let mut st = Stats::default();
                let sink = Sink::new();
                ref_drivers_sparse::<f64>("C06", &spec, &scale_drivers(len, n), &at, &mut st, &sink, &|h, hf, v, out| oracle::<f64>(kind, n, h, hf, v, out));
                JobOut { stats: st, viols: sink.take(), samples: vec![json!({"explorer":"LONG (sparse oracle)","scalar":"f64","view":spec.name(),"family":label,"steps":len,"judged_steps":at.len(),"drivers":4})] }
            }));
        }
    }
    let o = run_jobs(jobs, ctx.seed);
    CheckOutput {
        stats: o.stats,
        violations: o.viols,
        samples: o.samples,
        rule: "CTI, NET, CoG x N in 3..=Nmax x TREE over Z3/Z5 at Q and f64 against Pearson / Kendall / centre-of-gravity definitions on every full window; lockstep negation and order-relabelling pairs".into(),
        assumptions: vec!["CTI's literal +-1 is asserted on arithmetic progressions only (Pearson r of a non-linear monotone window is < 1)".into()],
        exhaustive: true,
        bounds: json!({"N": format!("3..={}", n_max)}),
    }
}
