//! C14 — combinators are pointwise, stateless functions of their children.

use crate::alpha::*;
use crate::explore::{run_jobs, tree, Job, JobOut, Step};
use crate::report::{CheckOutput, Sink, Stats, Violation};
use crate::scalar::{opt_key, Scalar};
use crate::spec::{build, Dyn, Kind, Spec};
use crate::{Ctx, Tier};
use serde_json::json;
use sliding_features::View;

fn pool() -> Vec<Spec> {
    use Kind::*;
    vec![
        Spec::echo(),
        Spec::constant(2.0),
        Spec::un(Sma, 2, Spec::echo()),
        Spec::un(Roc, 1, Spec::echo()),
        Spec::un(Cumulative, 2, Spec::echo()),
        Spec::un(Min, 2, Spec::echo()),
        Spec::un(Ema, 3, Spec::echo()),
        Spec::unp(GTE, 0, vec![1.0], Spec::echo()),
    ]
}
fn never_zero(s: &Spec) -> bool {
    matches!(s.kind, Kind::Constant) || s.kind == Kind::GTE
}

#[derive(Clone)]
struct S<T: Scalar> {
    comb: Dyn<T>,
    kids: Vec<Dyn<T>>,
}

/// same value, with +0 and -0 identified (max/min of a signed-zero pair has no defined sign)
fn same_mod_zero<T: Scalar>(a: Option<T>, b: Option<T>) -> bool {
    match (a, b) {
        (None, None) => true,
        (Some(x), Some(y)) => x.same(y) || (x == T::zero() && y == T::zero()),
        _ => false,
    }
}

fn check<T: Scalar>(spec: &Spec, alpha: &[f64], depth: usize, st: &mut Stats, sink: &Sink) {
    let built = crate::explore::guard(|| {
        let kids: Vec<Dyn<T>> = spec.ch.iter().map(|c| build::<T>(c)).collect();
        S { comb: build::<T>(spec), kids }
    });
    let root = match built {
        Ok(r) => r,
        Err(m) => {
            sink.push(Violation::new("C14", spec, "panicked", T::NAME, &[], format!("the constructor panicked: {}", m)));
            return;
        }
    };
    st.configs += 1;
    // before the first update
    match crate::explore::guard(|| (root.comb.last(), expected::<T>(spec, &root.kids, None))) {
        Ok((got, want)) => {
            if !same_mod_zero(got, want) {
                sink.push(Violation::new("C14", spec, "pointwise", T::NAME, &[], format!("before any update: reports {} but the pointwise function of its children gives {}", opt_key(got), opt_key(want))));
            }
        }
        Err(m) => {
            sink.push(Violation::new("C14", spec, "panicked", T::NAME, &[], m));
            return;
        }
    }
    tree::<T, S<T>>(
        &root,
        alpha,
        depth,
        st,
        &mut |s, hist, st| {
            let x = T::of(*hist.last().unwrap());
            s.comb.update(x);
            for k in s.kids.iter_mut() {
                k.update(x);
            }
            st.transitions += 1 + s.kids.len() as u64;
            let got = s.comb.last();
            let want = expected::<T>(spec, &s.kids, Some(x));
            st.oracle_evals += 1;
            st.out(got.map(|g| g.f()));
            // only max / min of a signed-zero pair has no defined sign; everything else is bit-exact
            let ok = if matches!(spec.kind, Kind::GTE | Kind::LTE) { same_mod_zero(got, want) } else { crate::scalar::opt_same(got, want) };
            if !ok {
                sink.push(Violation::new(
                    "C14",
                    spec,
                    "pointwise",
                    T::NAME,
                    hist,
                    format!(
                        "reports {} but the pointwise function of its children's current outputs {:?} gives {}",
                        opt_key(got),
                        s.kids.iter().map(|k| opt_key(k.last())).collect::<Vec<_>>(),
                        opt_key(want)
                    ),
                ));
                return Step::Prune;
            }
            Step::Go
        },
        &mut |hist, msg| sink.push(Violation::new("C14", spec, "panicked", T::NAME, hist, msg)),
    );
}

fn expected<T: Scalar>(spec: &Spec, kids: &[Dyn<T>], x: Option<T>) -> Option<T> {
    let k = |i: usize| kids[i].last();
    match spec.kind {
        Kind::Add => k(0).zip(k(1)).map(|(a, b)| a + b),
        Kind::Subtract => k(0).zip(k(1)).map(|(a, b)| a - b),
        Kind::Multiply => k(0).zip(k(1)).map(|(a, b)| a * b),
        Kind::Divide => k(0).zip(k(1)).map(|(a, b)| a / b),
        Kind::Tanh => k(0).map(|v| v.tanh()),
        Kind::GTE => {
            let c = T::of(spec.p[0]);
            k(0).map(|v| if v >= c { v } else { c })
        }
        Kind::LTE => {
            let c = T::of(spec.p[0]);
            k(0).map(|v| if v <= c { v } else { c })
        }
        Kind::Echo => x,
        Kind::Constant => Some(T::of(spec.p[0])),
        _ => unreachable!(),
    }
}

pub fn specs() -> Vec<Spec> {
    use Kind::*;
    let mut v = vec![];
    let pool = pool();
    for k in crate::spec::BINARY {
        for a in &pool {
            for b in &pool {
                if k == Divide && !never_zero(b) {
                    continue;
                }
                v.push(Spec::bin(k, a.clone(), b.clone()));
            }
        }
    }
    let mut clips = Z5.to_vec();
    clips.push(0.5);
    for c in clips {
        for child in [Spec::echo(), Spec::un(Cumulative, 2, Spec::echo())] {
            v.push(Spec::unp(GTE, 0, vec![c], child.clone()));
            v.push(Spec::unp(LTE, 0, vec![c], child));
        }
    }
    for child in [Spec::echo(), Spec::un(Cumulative, 3, Spec::echo()), Spec::un(Roc, 1, Spec::echo())] {
        v.push(Spec::un(Tanh, 0, child));
    }
    v.push(Spec::echo());
    for c in Z5.iter().chain(F6.iter()) {
        v.push(Spec::constant(*c));
    }
    v
}

/// magnitudes from the subnormal edge to the overflow edge, both signs, signed zeros, and the
/// neighbourhood where tanh saturates in f32 and f64
pub const LADDER: [f64; 23] = [0.0, -0.0, 1e-300, 1e-20, 1e-8, 0.1, 0.5, 1.0, 2.0, 4.0, 7.97, 8.0, 9.0, 9.01, 16.0, 18.0, 18.02, 18.5, 19.0, 19.06, 20.0, 40.0, 700.0];

fn ladder() -> Vec<f64> {
    let mut v = LADDER.to_vec();
    v.extend(LADDER.iter().filter(|x| **x != 0.0).map(|x| -x));
    v.extend([1e20, -1e20, 1e150, -1e150]);
    v
}

/// Statically typed nestings (no type erasure): the harness's `Dyn` forwards only `update` and
/// `last`, so anything a combinator obtains from its child through another trait method would be
/// invisible behind it. Here the real generic structs are nested directly.
fn static_nestings<T: Scalar>(st: &mut Stats, sink: &Sink) {
    use sliding_features::pure_functions::{Add, Constant, Divide, Echo, Multiply, Subtract};
    let vals = [0.1, 0.3, 1.0, 3.0, 9.0, -7.0, 0.0];
    st.configs += 1;
    macro_rules! nest {
        ($outer:ident, $inner:ident, $op_o:tt, $op_i:tt, $name:expr) => {{
            for (c1, c2) in [(0.1, 1.0), (3.0, 1.0), (0.7, 0.3)] {
                // outer(inner(x, c1), c2) and outer(c2, inner(x, c1))
                let mut left = $outer::new($inner::new(Echo::<T>::new(), Constant::new(T::of(c1))), Constant::new(T::of(c2)));
                let mut right = $outer::new(Constant::new(T::of(c2)), $inner::new(Echo::<T>::new(), Constant::new(T::of(c1))));
                let mut inner = $inner::new(Echo::<T>::new(), Constant::new(T::of(c1)));
                for x in vals {
                    let r = crate::explore::guard(|| {
                        left.update(T::of(x));
                        right.update(T::of(x));
                        inner.update(T::of(x));
                        (left.last(), right.last(), inner.last())
                    });
                    st.transitions += 3;
                    st.oracle_evals += 2;
                    let Ok((l, r, i)) = r else { continue };
                    let Some(i) = i else {
                        let spec = Spec::bin(Kind::$inner, Spec::echo(), Spec::constant(c1));
                        sink.push(Violation::new("C14", &spec, "pointwise", T::NAME, &[x], format!("{} of the input and the constant {} reports nothing after an update although both children report", stringify!($inner), c1)));
                        return;
                    };
                    let want_l = i $op_o T::of(c2);
                    let want_r = T::of(c2) $op_o i;
                    let _ = stringify!($op_i);
                    for (got, want, shape) in [(l, want_l, "outer(inner(x,c1),c2)"), (r, want_r, "outer(c2,inner(x,c1))")] {
                        if want.is_finite() && !crate::scalar::opt_same(got, Some(want)) {
                            let spec = Spec::bin(Kind::$outer, Spec::bin(Kind::$inner, Spec::echo(), Spec::constant(c1)), Spec::constant(c2));
                            sink.push(Violation::new("C14", &spec, "pointwise", T::NAME, &[x], format!("{} as {} with c1={}, c2={}: reports {} but applying the operation to the inner combinator's reported output {} gives {}", $name, shape, c1, c2, opt_key(got), i.key(), want.key())));
                            return;
                        }
                    }
                }
            }
        }};
    }
    nest!(Add, Multiply, +, *, "Add over Multiply");
    nest!(Add, Divide, +, /, "Add over Divide");
    nest!(Add, Subtract, +, -, "Add over Subtract");
    nest!(Add, Add, +, +, "Add over Add");
    nest!(Subtract, Multiply, -, *, "Subtract over Multiply");
    nest!(Subtract, Divide, -, /, "Subtract over Divide");
    nest!(Subtract, Add, -, +, "Subtract over Add");
    nest!(Subtract, Subtract, -, -, "Subtract over Subtract");
    nest!(Multiply, Add, *, +, "Multiply over Add");
    nest!(Multiply, Divide, *, /, "Multiply over Divide");
    nest!(Multiply, Subtract, *, -, "Multiply over Subtract");
    nest!(Multiply, Multiply, *, *, "Multiply over Multiply");
    nest!(Divide, Add, /, +, "Divide over Add");
    nest!(Divide, Multiply, /, *, "Divide over Multiply");
    nest!(Divide, Subtract, /, -, "Divide over Subtract");
    nest!(Divide, Divide, /, /, "Divide over Divide");
}

/// Statically typed combinator trees inside other views. Every arithmetic combinator is built
/// directly over every ordered pair of seven child views (different warm-up lengths, stateless and
/// stateful), stand-alone and wrapped in GTE / LTE / Tanh / Sma(1), with no `Dyn` anywhere: the outer
/// view, the combinator and both children are the crate's own generic structs, as in user code. The
/// oracle is the same as in `check`: the operation applied to the current outputs of two stand-alone
/// copies of the children fed the same stream.
mod nested {
    use super::same_mod_zero;
    use crate::explore::{guard, sequences};
    use crate::report::{Sink, Stats, Violation};
    use crate::scalar::{opt_key, opt_same};
    use crate::spec::{Kind, Spec};
    use sliding_features::pure_functions::{Add, Constant, Divide, Echo, Multiply, Subtract, Tanh, GTE, LTE};
    use sliding_features::sliding_windows::{Cumulative, Ema, Roc, Sma};
    use sliding_features::View;

    pub trait Mk {
        const NEVER_ZERO: bool = false;
        fn mk() -> impl View<f64> + 'static;
        fn spec() -> Spec;
    }
    pub struct KEcho;
    pub struct KConst;
    pub struct KSma;
    pub struct KEma;
    pub struct KCum;
    pub struct KRoc;
    pub struct KGte;
    impl Mk for KEcho {
        fn mk() -> impl View<f64> + 'static {
            Echo::<f64>::new()
        }
        fn spec() -> Spec {
            Spec::echo()
        }
    }
    impl Mk for KConst {
        const NEVER_ZERO: bool = true;
        fn mk() -> impl View<f64> + 'static {
            Constant::new(2.0f64)
        }
        fn spec() -> Spec {
            Spec::constant(2.0)
        }
    }
    impl Mk for KSma {
        fn mk() -> impl View<f64> + 'static {
            Sma::new(Echo::<f64>::new(), 2)
        }
        fn spec() -> Spec {
            Spec::un(Kind::Sma, 2, Spec::echo())
        }
    }
    impl Mk for KEma {
        fn mk() -> impl View<f64> + 'static {
            Ema::new(Echo::<f64>::new(), 3)
        }
        fn spec() -> Spec {
            Spec::un(Kind::Ema, 3, Spec::echo())
        }
    }
    impl Mk for KCum {
        fn mk() -> impl View<f64> + 'static {
            Cumulative::new(Echo::<f64>::new(), 2)
        }
        fn spec() -> Spec {
            Spec::un(Kind::Cumulative, 2, Spec::echo())
        }
    }
    impl Mk for KRoc {
        fn mk() -> impl View<f64> + 'static {
            Roc::new(Echo::<f64>::new(), 1)
        }
        fn spec() -> Spec {
            Spec::un(Kind::Roc, 1, Spec::echo())
        }
    }
    impl Mk for KGte {
        const NEVER_ZERO: bool = true;
        fn mk() -> impl View<f64> + 'static {
            GTE::new(Echo::<f64>::new(), 1.0)
        }
        fn spec() -> Spec {
            Spec::unp(Kind::GTE, 0, vec![1.0], Spec::echo())
        }
    }

    /// one (shape, combinator, children) configuration over every sequence of `depth` letters
    #[allow(clippy::too_many_arguments)]
    fn run_shape<N: View<f64>, VA: View<f64>, VB: View<f64>>(
        spec: &Spec,
        shape: &str,
        mk: &dyn Fn() -> N,
        mka: &dyn Fn() -> VA,
        mkb: &dyn Fn() -> VB,
        op: fn(f64, f64) -> f64,
        outer: fn(f64) -> f64,
        exact_sign: bool,
        check_initial: bool,
        seqs: &[Vec<f64>],
        st: &mut Stats,
        sink: &Sink,
    ) {
        st.configs += 1;
        let fail = |hist: &[f64], clause: &str, msg: String| {
            sink.push(Violation::new("C14", spec, clause, "f64", hist, format!("statically typed, shape {}: {}", shape, msg)).tag("static"));
        };
        if check_initial {
            match guard(|| (mk().last(), mka().last().zip(mkb().last()).map(|(a, b)| outer(op(a, b))))) {
                Ok((got, want)) => {
                    if !same_mod_zero(got, want) {
                        fail(&[], "pointwise", format!("before any update: reports {} but the pointwise function of its children gives {}", opt_key(got), opt_key(want)));
                        return;
                    }
                }
                Err(m) => {
                    fail(&[], "panicked", m);
                    return;
                }
            }
        }
        for h in seqs {
            let r = guard(|| {
                let (mut n, mut a, mut b) = (mk(), mka(), mkb());
                for (i, &x) in h.iter().enumerate() {
                    n.update(x);
                    a.update(x);
                    b.update(x);
                    let got = n.last();
                    let want = a.last().zip(b.last()).map(|(a, b)| outer(op(a, b)));
                    if let Some(w) = want {
                        if !w.is_finite() {
                            return None; // max/min and windows of a non-finite value are not this property's matter
                        }
                    }
                    let ok = if exact_sign { opt_same(got, want) } else { same_mod_zero(got, want) };
                    if !ok {
                        return Some((i, got, want, a.last(), b.last()));
                    }
                }
                None
            });
            st.transitions += 3 * h.len() as u64;
            st.oracle_evals += h.len() as u64;
            match r {
                Ok(None) => {}
                Ok(Some((i, got, want, a, b))) => {
                    fail(&h[..=i], "pointwise", format!("reports {} but the pointwise function of its children's current outputs [{}, {}] gives {}", opt_key(got), opt_key(a), opt_key(b), opt_key(want)));
                    return;
                }
                Err(m) => {
                    fail(h, "panicked", m);
                    return;
                }
            }
        }
    }

    fn shapes<C: View<f64> + 'static, VA: View<f64>, VB: View<f64>>(spec: &Spec, mk: &dyn Fn() -> C, mka: &dyn Fn() -> VA, mkb: &dyn Fn() -> VB, op: fn(f64, f64) -> f64, seqs: &[Vec<f64>], st: &mut Stats, sink: &Sink) {
        let id: fn(f64) -> f64 = |v| v;
        run_shape(spec, "stand-alone", mk, mka, mkb, op, id, true, true, seqs, st, sink);
        // GTE and LTE cache the clipped value in update(): they have no output before the first step
        run_shape(spec, "GTE(., -1e300)", &|| GTE::new(mk(), -1e300), mka, mkb, op, id, false, false, seqs, st, sink);
        run_shape(spec, "LTE(., 1e300)", &|| LTE::new(mk(), 1e300), mka, mkb, op, id, false, false, seqs, st, sink);
        run_shape(spec, "Tanh(.)", &|| Tanh::new(mk()), mka, mkb, op, |v| v.tanh(), true, true, seqs, st, sink);
        // Sma(1): sum - old + new with sum == old is exactly new (up to the sign of zero); it has no output before its first update
        run_shape(spec, "Sma(., 1)", &|| Sma::new(mk(), 1), mka, mkb, op, id, false, false, seqs, st, sink);
    }

    fn pair<A: Mk, B: Mk>(seqs: &[Vec<f64>], st: &mut Stats, sink: &Sink) {
        shapes(&Spec::bin(Kind::Add, A::spec(), B::spec()), &|| Add::new(A::mk(), B::mk()), &A::mk, &B::mk, |a, b| a + b, seqs, st, sink);
        shapes(&Spec::bin(Kind::Subtract, A::spec(), B::spec()), &|| Subtract::new(A::mk(), B::mk()), &A::mk, &B::mk, |a, b| a - b, seqs, st, sink);
        shapes(&Spec::bin(Kind::Multiply, A::spec(), B::spec()), &|| Multiply::new(A::mk(), B::mk()), &A::mk, &B::mk, |a, b| a * b, seqs, st, sink);
        if B::NEVER_ZERO {
            shapes(&Spec::bin(Kind::Divide, A::spec(), B::spec()), &|| Divide::new(A::mk(), B::mk()), &A::mk, &B::mk, |a, b| a / b, seqs, st, sink);
        }
    }

    fn row<A: Mk>(seqs: &[Vec<f64>], st: &mut Stats, sink: &Sink) {
        pair::<A, KEcho>(seqs, st, sink);
        pair::<A, KConst>(seqs, st, sink);
        pair::<A, KSma>(seqs, st, sink);
        pair::<A, KEma>(seqs, st, sink);
        pair::<A, KCum>(seqs, st, sink);
        pair::<A, KRoc>(seqs, st, sink);
        pair::<A, KGte>(seqs, st, sink);
    }

    pub const ROWS: usize = 7;
    pub fn run_row(i: usize, alpha: &[f64], depth: usize, st: &mut Stats, sink: &Sink) {
        let seqs = sequences(alpha, depth);
        match i {
            0 => row::<KEcho>(&seqs, st, sink),
            1 => row::<KConst>(&seqs, st, sink),
            2 => row::<KSma>(&seqs, st, sink),
            3 => row::<KEma>(&seqs, st, sink),
            4 => row::<KCum>(&seqs, st, sink),
            5 => row::<KRoc>(&seqs, st, sink),
            _ => row::<KGte>(&seqs, st, sink),
        }
    }
}

/// The unary stateless functions over the f32 values themselves: every `stride`-th bit pattern of the
/// finite f32 numbers in the chunk `part` of `parts` (stride 1 = every finite f32), one instance
/// reused throughout (a stateless function must not care), compared bit-exactly with the function
/// evaluated in f32. No short alphabet can stand in for this: an evaluation carried out in another
/// precision and rounded back agrees with the f32 function on most values and differs by one ulp on
/// a few per cent of them.
fn f32_sweep(spec: &Spec, stride: u32, part: u32, parts: u32, st: &mut Stats, sink: &Sink) {
    let Ok(mut v) = crate::explore::guard(|| build::<f32>(spec)) else { return };
    st.configs += 1;
    let lo = (u32::MAX as u64 + 1) * part as u64 / parts as u64;
    let hi = (u32::MAX as u64 + 1) * (part as u64 + 1) / parts as u64;
    let mut bits = lo + (stride as u64 - lo % stride as u64) % stride as u64;
    let mut n = 0u64;
    while bits < hi {
        let x = f32::from_bits(bits as u32);
        bits += stride as u64;
        if !x.is_finite() {
            continue;
        }
        n += 1;
        let r = crate::explore::guard(|| {
            v.update(x);
            v.last()
        });
        let want = match spec.kind {
            Kind::Tanh => Some(x.tanh()),
            Kind::GTE => Some(if x >= spec.p[0] as f32 { x } else { spec.p[0] as f32 }),
            Kind::LTE => Some(if x <= spec.p[0] as f32 { x } else { spec.p[0] as f32 }),
            Kind::Echo => Some(x),
            _ => unreachable!(),
        };
        match r {
            Ok(got) => {
                let ok = if matches!(spec.kind, Kind::GTE | Kind::LTE) { same_mod_zero(got, want) } else { crate::scalar::opt_same(got, want) };
                if !ok {
                    sink.push(Violation::new("C14", spec, "pointwise", "f32", &[x as f64], format!("on the f32 value {:e} (bits {:#010x}) reports {} but the function evaluated in f32 gives {}", x, x.to_bits(), opt_key(got), opt_key(want))));
                    break;
                }
            }
            Err(m) => {
                sink.push(Violation::new("C14", spec, "panicked", "f32", &[x as f64], m));
                break;
            }
        }
    }
    st.transitions += n;
    st.oracle_evals += n;
    st.states += n;
}

pub fn run(ctx: &Ctx) -> CheckOutput {
    let quick = ctx.tier == Tier::Quick;
    let depth = if quick { 6 } else { 9 };
    let mut jobs: Vec<Job> = vec![];
    for spec in specs() {
        jobs.push(Box::new(move || {
            let mut st = Stats::default();
            let sink = Sink::new();
            check::<f64>(&spec, &Z5, depth, &mut st, &sink);
            if !quick {
                check::<f32>(&spec, &Z5, depth.min(5), &mut st, &sink);
                check::<f64>(&spec, &D4, depth.min(6), &mut st, &sink);
            }
            JobOut { stats: st, viols: sink.take(), samples: vec![json!({"explorer":"TREE","scalar":"f64","view":spec.name(),"alphabet":Z5,"depth":depth})] }
        }));
    }
    // combinators nested directly in combinators (an operand must be the child's *reported* value),
    // at f32 and f64, on values whose inner result is inexact
    {
        use Kind::*;
        let e = Spec::echo;
        let inexact = [0.1, 0.3, 1.0, 3.0, 9.0, -7.0];
        for k1 in crate::spec::BINARY {
            for k2 in crate::spec::BINARY {
                for (c1, c2) in [(0.1, 1.0), (3.0, 1.0), (0.7, 0.3)] {
                    let inner = Spec::bin(k2, e(), Spec::constant(c1));
                    for spec in [Spec::bin(k1, inner.clone(), Spec::constant(c2)), Spec::bin(k1, Spec::constant(c2), inner.clone())] {
                        if k1 == Divide && spec.ch[1].kind != Constant {
                            continue; // the inner result can be zero
                        }
                        jobs.push(Box::new(move || {
                            let mut st = Stats::default();
                            let sink = Sink::new();
                            check::<f32>(&spec, &inexact, 2, &mut st, &sink);
                            check::<f64>(&spec, &inexact, 2, &mut st, &sink);
                            JobOut { stats: st, viols: sink.take(), samples: vec![] }
                        }));
                    }
                }
            }
        }
    }
    jobs.push(Box::new(move || {
        let mut st = Stats::default();
        let sink = Sink::new();
        static_nestings::<f32>(&mut st, &sink);
        static_nestings::<f64>(&mut st, &sink);
        JobOut { stats: st, viols: sink.take(), samples: vec![json!({"clause":"statically typed nestings of the four arithmetic combinators, f32 and f64"})] }
    }));
    for i in 0..nested::ROWS {
        let d = if quick { 5 } else { 7 };
        jobs.push(Box::new(move || {
            let mut st = Stats::default();
            let sink = Sink::new();
            nested::run_row(i, &Z5, d, &mut st, &sink);
            JobOut { stats: st, viols: sink.take(), samples: vec![json!({"explorer":"TREE (by replay)","clause":"statically typed combinator over every ordered pair of 7 children, stand-alone and inside GTE/LTE/Tanh/Sma(1)","left child row":i,"alphabet":Z5,"depth":d})] }
        }));
    }
    // the unary stateless functions over the f32 numbers themselves
    {
        let stride: u32 = if quick { 1021 } else { 1 };
        let parts = 32u32;
        let e = Spec::echo;
        for spec in [Spec::un(Kind::Tanh, 0, e()), Spec::unp(Kind::GTE, 0, vec![0.5], e()), Spec::unp(Kind::LTE, 0, vec![-0.5], e()), e()] {
            // (every finite f32 for Tanh in the thorough tier; a stride for the comparisons, whose
            // behaviour can only change at the clip point, which the ladder already brackets)
            let stride = if spec.kind == Kind::Tanh { stride } else { stride.max(257) };
            for part in 0..parts {
                let spec = spec.clone();
                jobs.push(Box::new(move || {
                    let mut st = Stats::default();
                    let sink = Sink::new();
                    f32_sweep(&spec, stride, part, parts, &mut st, &sink);
                    JobOut { stats: st, viols: sink.take(), samples: if part == 0 { vec![json!({"explorer":"SWEEP","scalar":"f32","view":spec.name(),"domain":"every finite f32 bit pattern","stride":stride})] } else { vec![] } }
                }));
            }
        }
    }
    // the stateless functions over a ladder of magnitudes (depth 2: they have no memory to fill)
    {
        use Kind::*;
        let e = Spec::echo;
        let mut specs = vec![Spec::un(Tanh, 0, e()), e(), Spec::constant(1e-300), Spec::constant(-0.0)];
        for c in [0.0, -0.0, 18.5, -1e-300] {
            specs.push(Spec::unp(GTE, 0, vec![c], e()));
            specs.push(Spec::unp(LTE, 0, vec![c], e()));
        }
        for k in crate::spec::BINARY {
            for other in [Spec::constant(2.0), Spec::constant(-0.5), Spec::un(Cumulative, 2, e())] {
                if k == Divide && other.kind != Constant {
                    continue;
                }
                specs.push(Spec::bin(k, e(), other.clone()));
                if k != Divide {
                    specs.push(Spec::bin(k, other, e()));
                }
            }
        }
        specs.push(Spec::bin(Divide, Spec::constant(1.0), Spec::unp(GTE, 0, vec![1e-30], e())));
        for spec in specs {
            jobs.push(Box::new(move || {
                let mut st = Stats::default();
                let sink = Sink::new();
                check::<f64>(&spec, &ladder(), 2, &mut st, &sink);
                check::<f32>(&spec, &ladder()[..46], 2, &mut st, &sink);
                JobOut { stats: st, viols: sink.take(), samples: vec![json!({"explorer":"TREE","view":spec.name(),"alphabet":"magnitude ladder 1e-300..1e150, both signs, signed zeros","depth":2})] }
            }));
        }
    }
    let o = run_jobs(jobs, ctx.seed);
    CheckOutput {
        stats: o.stats,
        violations: o.viols,
        samples: o.samples,
        rule: "Add/Subtract/Multiply/Divide over every ordered pair of an 8-view child pool (different readiness, different values), GTE/LTE for 6 clips x 2 children, Tanh x 3 children, Echo, Constant: TREE over Z5, bit-exact comparison with the pointwise function of the stand-alone children's current outputs at every node, including before the first update; the same four combinators statically typed (no type erasure) over every ordered pair of 7 children, stand-alone and inside GTE/LTE/Tanh/Sma(1), over every Z5 sequence of the stated depth".into(),
        assumptions: vec!["children are advanced in lockstep as stand-alone instances (their own correctness is C01/C02's matter)".into()],
        exhaustive: true,
        bounds: json!({"depth": depth}),
    }
}
