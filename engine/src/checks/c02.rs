//! C02 — window statistics equal their definition over exactly the last N values.

use super::common::*;
use crate::alpha::*;
use crate::explore::{run_jobs, Job, JobOut};
use crate::q::Q;
use crate::refs;
use crate::report::{CheckOutput, Sink, Stats};
use crate::scalar::Scalar;
use crate::spec::{Dyn, Kind, Spec};
use crate::{Ctx, Tier};
use serde_json::json;
use sliding_features::View;

pub const VIEWS: [Kind; 10] = [
    Kind::Sma,
    Kind::Cumulative,
    Kind::Min,
    Kind::Max,
    Kind::WelfordOnline,
    Kind::HLNormalizer,
    Kind::Roc,
    Kind::BinaryEntropy,
    Kind::Vst,
    Kind::Vsct,
];

/// the oracle for one (kind, N): comparisons at a node
pub fn oracle<T: Scalar>(kind: Kind, n: usize, h: &[T], hf: &[f64], v: &Dyn<T>, out: &mut Vec<Cmp<T>>) {
    let got = v.last();
    if got.is_none() {
        return; // warm-up: readiness is C08's matter
    }
    let w = refs::window(h, n);
    let m = max_abs(hf);
    let tol = 1e-9 * (1.0 + m);
    let flat = refs::is_flat(w);
    let left_big = h.len() > n && {
        let gone = max_abs(&hf[..hf.len() - w.len()]);
        let inw = max_abs(&hf[hf.len() - w.len()..]);
        gone > inw
    };
    let mk = |clause: &'static str, got: Option<T>, want: T, tol: f64| {
        Cmp::new(clause, got, Some(want), tol).tag_if(flat, "window_flat").tag_if(left_big, "larger_value_left_window")
    };
    match kind {
        Kind::Sma => out.push(mk("mean", got, refs::mean(w), tol)),
        Kind::Cumulative => out.push(mk("sum", got, refs::sum(w), tol)),
        Kind::Min => out.push(mk("min", got, refs::minv(w), 0.0)),
        Kind::Max => out.push(mk("max", got, refs::maxv(w), 0.0)),
        Kind::WelfordOnline => {
            let (mean, var) = v.aux().expect("welford accessors");
            let var_ref = refs::sample_var(w);
            out.push(mk("mean()", Some(mean), refs::mean(w), tol));
            out.push(mk("variance()", Some(var), var_ref, 1e-9 * (1.0 + m * m)));
            out.push(mk("last()=std", got, var_ref.sqrt(), 1e-6 * (1.0 + m)));
        }
        Kind::HLNormalizer => out.push(mk("hl", got, refs::hl_norm(w), 1e-9)),
        Kind::Roc => {
            let want = refs::roc(h, n);
            let base0 = refs::roc_base(h, n) == T::zero();
            let scale = want.map(|x| x.f().abs()).unwrap_or(0.0);
            out.push(
                Cmp::new("roc", got, want, 1e-9 * (1.0 + scale)).tag_if(base0, "holding_zero_base"),
            );
        }
        Kind::BinaryEntropy => out.push(mk("entropy", got, refs::binary_entropy(w), 1e-9)),
        Kind::Vst => {
            let sd = refs::sample_var(w).sqrt();
            let x = *h.last().unwrap();
            let want = if sd == T::zero() { x } else { x / sd };
            out.push(mk("x/std", got, want, 1e-6 * (1.0 + want.f().abs())));
        }
        Kind::Vsct => {
            let sd = refs::sample_var(w).sqrt();
            let x = *h.last().unwrap();
            let want = if sd == T::zero() { T::zero() } else { (x - refs::mean(w)) / sd };
            out.push(mk("(x-mean)/std", got, want, 1e-6 * (1.0 + want.f().abs())));
        }
        _ => unreachable!(),
    }
}

pub fn run(ctx: &Ctx) -> CheckOutput {
    let quick = ctx.tier == Tier::Quick;
    let n_max = if quick { 6 } else { 10 };
    let cap = if quick { 150_000 } else { 1_000_000 };
    let mut jobs: Vec<Job> = vec![];
    for kind in VIEWS {
        for n in 1..=n_max {
            let spec = Spec::un(kind, n, Spec::echo());
            // (a) exact scalar, TREE
            for (alpha, depth) in [(Z3.to_vec(), (n + 4).min(if quick { 9 } else { 11 })), (Z5.to_vec(), (n + 3).min(if quick { 7 } else { 8 }))] {
                let spec = spec.clone();
                jobs.push(Box::new(move || {
                    let mut st = Stats::default();
                    let sink = Sink::new();
                    ref_tree::<Q>("C02", &spec, &alpha, depth, &mut st, &sink, &|h, hf, v, out| {
                        oracle::<Q>(kind, n, h, hf, v, out)
                    });
                    JobOut { stats: st, viols: sink.take(), samples: vec![json!({"explorer":"TREE","scalar":"Q","view":spec.name(),"alphabet":alpha,"depth":depth})] }
                }));
            }
            // f32: the same generic code at the third scalar
            if n <= 5 {
                let spec = spec.clone();
                jobs.push(Box::new(move || {
                    let mut st = Stats::default();
                    let sink = Sink::new();
                    ref_tree::<f32>("C02", &spec, &Z5, (n + 3).min(6), &mut st, &sink, &|h, hf, v, out| oracle::<f32>(kind, n, h, hf, v, out));
                    JobOut { stats: st, viols: sink.take(), samples: vec![] }
                }));
            }
            // (b) f64, CLOSURE
            let mut alphas = vec![Z5.to_vec()];
            if !quick {
                alphas.push(D4.to_vec());
            }
            for alpha in alphas {
                let spec = spec.clone();
                jobs.push(Box::new(move || {
                    let mut st = Stats::default();
                    let sink = Sink::new();
                    let closed = ref_closure::<f64>("C02", &spec, &alpha, n + 1, cap, 64, &mut st, &sink, &|h, hf, v, out| {
                        oracle::<f64>(kind, n, h, hf, v, out)
                    });
                    JobOut { stats: st, viols: sink.take(), samples: vec![json!({"explorer":"CLOSURE","scalar":"f64","view":spec.name(),"alphabet":alpha,"closed":closed})] }
                }));
            }
        }
    }
    // structured phase histories, every window length
    for kind in VIEWS {
        for n in if quick { vec![2usize, 3, 5, 8, 9, 13, 17, 24] } else { (1..=18).chain([20, 24, 33, 40]).collect() } {
            let spec = Spec::un(kind, n, Spec::echo());
            let phases = if quick { 3 } else { 4 };
            jobs.push(Box::new(move || {
                let mut st = Stats::default();
                let sink = Sink::new();
                let d = phase_drivers(n, phases);
                ref_drivers::<f64>("C02", &spec, &d, &mut st, &sink, &|h, hf, v, out| oracle::<f64>(kind, n, h, hf, v, out));
                if n <= 9 {
                    ref_drivers::<Q>("C02", &spec, &phase_drivers(n, 2), &mut st, &sink, &|h, hf, v, out| oracle::<Q>(kind, n, h, hf, v, out));
                }
                JobOut { stats: st, viols: sink.take(), samples: vec![json!({"explorer":"LONG","view":spec.name(),"driver":format!("every sequence of <= {} phases from a menu of 8, {} histories", phases, d.len())})] }
            }));
        }
    }
    // long histories (behaviour keyed on the number of updates / evictions)
    for kind in VIEWS {
        for n in [2usize, 5] {
            let spec = Spec::un(kind, n, Spec::echo());
            let len = if quick { 300 } else { 1200 };
            jobs.push(Box::new(move || {
                let mut st = Stats::default();
                let sink = Sink::new();
                ref_long_cycles::<f64>("C02", &spec, &Z5, 3, len, &mut st, &sink, &|h, hf, v, out| oracle::<f64>(kind, n, h, hf, v, out));
                JobOut { stats: st, viols: sink.take(), samples: vec![json!({"explorer":"LONG","scalar":"f64","view":spec.name(),"driver":"every Z5 cycle of period<=3","steps":len})] }
            }));
        }
    }
    // windows a TREE from the empty history cannot fill: every suffix over Z3 after three base histories
    for kind in VIEWS {
        for n in if quick { vec![7usize, 9, 12] } else { vec![7, 8, 9, 11, 12, 16, 20] } {
            let spec = Spec::un(kind, n, Spec::echo());
            let depth = if quick { 5 } else { 7 };
            jobs.push(Box::new(move || {
                let mut st = Stats::default();
                let sink = Sink::new();
                ref_tree_from_bases::<Q>("C02", &spec, &bases(n), &Z3, depth, &mut st, &sink, &|h, hf, v, out| oracle::<Q>(kind, n, h, hf, v, out));
                ref_tree_from_bases::<f64>("C02", &spec, &bases(n), &Z5, depth, &mut st, &sink, &|h, hf, v, out| oracle::<f64>(kind, n, h, hf, v, out));
                JobOut { stats: st, viols: sink.take(), samples: vec![json!({"explorer":"TREE from base histories","view":spec.name(),"bases":3,"suffix_depth":depth})] }
            }));
        }
    }
    // scale families: a run past 2^16 updates, a window past 2^8, a window past 2^16 (integer widths
    // of counters and stored lengths), judged against the definition at the boundary steps
    for kind in VIEWS {
        let o1 = matches!(kind, Kind::Sma | Kind::Cumulative | Kind::Roc | Kind::BinaryEntropy);
        let amortised = matches!(kind, Kind::Min | Kind::Max | Kind::HLNormalizer);
        let k_of = move |n: usize| if kind == Kind::Roc { n + 1 } else { n };
        for (label, n, len, at) in scale_families(&k_of, quick, o1 || (amortised && !quick), false) {
            let spec = Spec::un(kind, n, Spec::echo());
            jobs.push(Box::new(move || {
                let mut st = Stats::default();
                let sink = Sink::new();
                ref_drivers_sparse::<f64>("C02", &spec, &scale_drivers(len, n), &at, &mut st, &sink, &|h, hf, v, out| oracle::<f64>(kind, n, h, hf, v, out));
                JobOut { stats: st, viols: sink.take(), samples: vec![json!({"explorer":"LONG (sparse oracle)","scalar":"f64","view":spec.name(),"family":label,"steps":len,"judged_steps":at.len(),"drivers":4})] }
            }));
        }
    }
    let o = run_jobs(jobs, ctx.seed);
    CheckOutput {
        stats: o.stats,
        violations: o.viols,
        samples: o.samples,
        rule: "every view of the statement x every N x (TREE of all sequences over Z3/Z5 at the exact rational scalar; CLOSURE (BFS, state = Debug of the real struct + last N+1 inputs) at f64); every node compared with the batch definition over the last N values".into(),
        assumptions: vec![
            "input letters are the stated alphabets; equalities at Q are exact, so they extend to all reals only branch-wise".into(),
            "CLOSURE deduplicates on a 128-bit hash of the Debug rendering of the real struct".into(),
        ],
        exhaustive: true,
        bounds: json!({"N": format!("1..={}", n_max), "closure_state_cap": cap}),
    }
}
