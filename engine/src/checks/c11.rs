//! C11 — Ehlers-style indicators follow their defining difference equations.

use super::common::*;
use crate::alpha::*;
use crate::explore::{cycles, run_jobs, Job, JobOut};
use crate::q::Q;
use crate::refs_ehlers as re;
use crate::refs_ehlers::Rendering::*;
use crate::report::{CheckOutput, Sink, Stats, Violation};
use crate::scalar::Scalar;
use crate::spec::{build, Dyn, Kind, Spec};
use crate::{Ctx, Tier};
use serde_json::json;
use sliding_features::View;

/// expected answers (first = the statement's rendering; further = accepted alternates)
pub fn expect<T: Scalar>(spec: &Spec, h: &[T]) -> Vec<Option<T>> {
    let n = spec.n;
    match spec.kind {
        Kind::SuperSmoother => vec![re::super_smoother(h, n, Product), re::super_smoother(h, n, Literal)],
        Kind::Roofing => vec![re::roofing(h, n, spec.m, Product), re::roofing(h, n, spec.m, Literal)],
        Kind::LaguerreFilter => vec![re::laguerre_filter(h, T::of(spec.p[0]))],
        Kind::LaguerreRsi => vec![re::laguerre_rsi(h, n)],
        Kind::CyberCycle => vec![re::cyber_cycle(h, n)],
        Kind::TrendFlex => vec![re::trend_flex(h, n)],
        Kind::ReFlex => vec![re::re_flex(h, n)],
        Kind::Eft => vec![re::fisher(h, n, &spec.ch[1])],
        Kind::Pfe => vec![re::pfe(h, n, &spec.ch[1])],
        _ => unreachable!(),
    }
}

pub fn scale_of(spec: &Spec, hf: &[f64]) -> f64 {
    match spec.kind {
        // value-like outputs scale with the input
        Kind::SuperSmoother | Kind::Roofing | Kind::LaguerreFilter | Kind::CyberCycle => 1.0 + max_abs(hf),
        Kind::TrendFlex | Kind::ReFlex => 5.0,
        Kind::Eft => 5.3,
        _ => 1.0,
    }
}

pub fn oracle<T: Scalar>(spec: &Spec, h: &[T], hf: &[f64], v: &Dyn<T>, out: &mut Vec<Cmp<T>>) {
    let got = v.last();
    let wants = expect::<T>(spec, h);
    let mut c = Cmp::new("difference-equation", got, wants[0], 1e-9 * scale_of(spec, hf));
    for w in &wants[1..] {
        c = c.or(*w);
    }
    out.push(c);
}

/// every cycle over alpha of period <= p, extended to `len` steps, compared at every step
fn cycle_run<T: Scalar>(spec: &Spec, alpha: &[f64], p: usize, len: usize, st: &mut Stats, sink: &Sink) {
    for cyc in cycles(alpha, p) {
        T::reset_arena();
        let hist: Vec<f64> = (0..len).map(|i| cyc[i % cyc.len()]).collect();
        let r = crate::explore::guard(|| {
            let c0 = T::inexact();
            let mut v = build::<T>(spec);
            let mut bad = None;
            for i in 0..len {
                v.update(T::of(hist[i]));
                st.transitions += 1;
                let ht = to_t::<T>(&hist[..=i]);
                let wants = expect::<T>(spec, &ht);
                let got = v.last();
                let tainted = T::inexact() > c0;
                let tol = 1e-9 * scale_of(spec, &hist[..=i]);
                st.oracle_evals += 1;
                st.out(got.map(|g| g.f()));
                if !wants.iter().any(|w| agrees(got, *w, tol, tainted)) {
                    bad = Some((i, got, wants[0]));
                    break;
                }
            }
            bad
        });
        st.states += len as u64;
        st.traces += 1;
        match r {
            Ok(Some((i, got, want))) => sink.push(Violation::new(
                "C11",
                spec,
                "difference-equation",
                T::NAME,
                &hist[..=i],
                format!("implementation {} but the batch evaluation of the equations gives {}", show(got), show(want)),
            )),
            Ok(None) => {}
            Err(msg) => sink.push(Violation::new("C11", spec, "panicked", T::NAME, &hist, msg)),
        }
    }
    st.configs += 1;
}

/// Delayed inner view: the indicator is chained behind a view that reports nothing for its first
/// updates. Every word over alpha of length `depth`; the values the stand-alone inner view reports are
/// the indicator's input history, and the indicator's warm-up and start-up state count those values
/// only (updates on which the inner view has nothing to report deliver nothing).
fn delayed_run<T: Scalar>(spec: &Spec, alpha: &[f64], depth: usize, st: &mut Stats, sink: &Sink) {
    let inner = spec.ch[0].clone();
    let mut idx = vec![0usize; depth];
    'words: loop {
        T::reset_arena();
        let hist: Vec<f64> = idx.iter().map(|&i| alpha[i]).collect();
        let r = crate::explore::guard(|| {
            let c0 = T::inexact();
            let mut v = build::<T>(spec);
            let mut a = build::<T>(&inner);
            let mut fed: Vec<T> = vec![];
            let mut fedf: Vec<f64> = vec![];
            let mut bad = None;
            for i in 0..depth {
                let x = T::of(hist[i]);
                v.update(x);
                a.update(x);
                st.transitions += 1;
                let got = v.last();
                match a.last() {
                    Some(y) => {
                        fed.push(y);
                        fedf.push(y.f());
                    }
                    None => {
                        if fed.is_empty() && got.is_some() {
                            bad = Some((i, got, None));
                            break;
                        }
                        continue;
                    }
                }
                let wants = expect::<T>(spec, &fed);
                let tainted = T::inexact() > c0;
                let tol = 1e-9 * scale_of(spec, &fedf);
                st.oracle_evals += 1;
                st.out(got.map(|g| g.f()));
                if !wants.iter().any(|w| agrees(got, *w, tol, tainted)) {
                    bad = Some((i, got, wants[0]));
                    break;
                }
            }
            bad
        });
        st.states += depth as u64;
        st.traces += 1;
        match r {
            Ok(Some((i, got, want))) => sink.push(Violation::new(
                "C11",
                spec,
                "difference-equation-delayed-inner",
                T::NAME,
                &hist[..=i],
                format!(
                    "implementation {} but the batch evaluation of the equations over the values its inner view delivered gives {}",
                    show(got),
                    show(want)
                ),
            )),
            Ok(None) => {}
            Err(msg) => sink.push(Violation::new("C11", spec, "panicked", T::NAME, &hist, msg)),
        }
        let mut k = depth;
        loop {
            if k == 0 {
                break 'words;
            }
            k -= 1;
            idx[k] += 1;
            if idx[k] < alpha.len() {
                break;
            }
            idx[k] = 0;
        }
    }
    st.configs += 1;
}

pub fn specs(quick: bool) -> Vec<Spec> {
    use Kind::*;
    let mut v = vec![];
    let ns = |min: usize| -> Vec<usize> {
        if quick {
            vec![min, min + 1, 7, 9, 12, 16]
        } else {
            let mut l: Vec<usize> = (min..=10).collect();
            l.extend([16, 20, 48]);
            l
        }
    };
    for n in ns(1) {
        v.push(Spec::un(SuperSmoother, n, Spec::echo()));
        v.push(Spec::un(LaguerreRsi, n, Spec::echo()));
    }
    for n in ns(2) {
        for m in if quick { vec![1, 3] } else { vec![1, 2, 3, 5] } {
            v.push(Spec::roofing(n, m, Spec::echo()));
        }
        for ma in [Spec::un(Ema, 2, Spec::echo()), Spec::un(Sma, 3, Spec::echo()), Spec::un(Ema, 1, Spec::echo())] {
            v.push(Spec::with_ma(Eft, n, Spec::echo(), ma));
        }
    }
    for g in [0.0, 0.3, 0.8] {
        v.push(Spec::unp(LaguerreFilter, 0, vec![g], Spec::echo()));
    }
    for n in ns(1).into_iter().chain([4, 5, 6, 7]) {
        v.push(Spec::un(CyberCycle, n, Spec::echo()));
    }
    for n in ns(3) {
        v.push(Spec::un(TrendFlex, n, Spec::echo()));
        v.push(Spec::un(ReFlex, n, Spec::echo()));
        for ma in [Spec::un(Ema, 2, Spec::echo()), Spec::un(Sma, 2, Spec::echo()), Spec::un(Sma, 1, Spec::echo())] {
            v.push(Spec::with_ma(Pfe, n, Spec::echo(), ma));
        }
    }
    v
}

pub fn run(ctx: &Ctx) -> CheckOutput {
    let quick = ctx.tier == Tier::Quick;
    let mut jobs: Vec<Job> = vec![];
    for spec in specs(quick) {
        let n = spec.n.max(1);
        let dz = (n + 6).min(if quick { 8 } else { 11 });
        let dd = if quick { 5 } else { 8 };
        for (alpha, depth) in [(Z3.to_vec(), dz), (D4.to_vec(), dd)] {
            {
                let (spec, alpha) = (spec.clone(), alpha.clone());
                jobs.push(Box::new(move || {
                    let mut st = Stats::default();
                    let sink = Sink::new();
                    ref_tree::<f64>("C11", &spec, &alpha, depth, &mut st, &sink, &|h, hf, v, out| oracle::<f64>(&spec, h, hf, v, out));
                    JobOut { stats: st, viols: sink.take(), samples: vec![json!({"explorer":"TREE","scalar":"f64","view":spec.name(),"alphabet":alpha,"depth":depth})] }
                }));
            }
            if alpha.len() == 3 {
                let (spec, alpha) = (spec.clone(), alpha.clone());
                jobs.push(Box::new(move || {
                    let mut st = Stats::default();
                    let sink = Sink::new();
                    ref_tree::<f32>("C11", &spec, &alpha, depth.min(6), &mut st, &sink, &|h, hf, v, out| oracle::<f32>(&spec, h, hf, v, out));
                    JobOut { stats: st, viols: sink.take(), samples: vec![] }
                }));
            }
            if n <= 4 {
                let (spec, alpha) = (spec.clone(), alpha.clone());
                let depth = depth.min(if quick { 7 } else { 8 });
                jobs.push(Box::new(move || {
                    let mut st = Stats::default();
                    let sink = Sink::new();
                    ref_tree::<Q>("C11", &spec, &alpha, depth, &mut st, &sink, &|h, hf, v, out| oracle::<Q>(&spec, h, hf, v, out));
                    JobOut { stats: st, viols: sink.take(), samples: vec![json!({"explorer":"TREE","scalar":"Q","view":spec.name(),"alphabet":alpha,"depth":depth})] }
                }));
            }
        }
        if n > 4 {
            let spec = spec.clone();
            jobs.push(Box::new(move || {
                let mut st = Stats::default();
                let sink = Sink::new();
                cycle_run::<f64>(&spec, &Z3, 4, 3 * n + 10, &mut st, &sink);
                JobOut { stats: st, viols: sink.take(), samples: vec![json!({"explorer":"LONG","scalar":"f64","view":spec.name(),"driver":"all Z3 cycles of period<=4","steps":3*n+10})] }
            }));
        }
    }
    // scale families: a run past 2^16 updates and a window past 2^8, the batch evaluation consulted at
    // the boundary steps (it costs O(t) per step)
    {
        use Kind::*;
        let e = Spec::echo;
        let fam = |n: usize| -> Vec<Spec> {
            vec![
                Spec::un(SuperSmoother, n, e()),
                Spec::un(LaguerreRsi, n, e()),
                Spec::roofing(n, 3, e()),
                Spec::with_ma(Eft, n, e(), Spec::un(Ema, 2, e())),
                Spec::un(CyberCycle, n.max(6), e()),
                Spec::un(TrendFlex, n, e()),
                Spec::un(ReFlex, n, e()),
                Spec::with_ma(Pfe, n, e(), Spec::un(Sma, 2, e())),
            ]
        };
        let mut list: Vec<(&'static str, Spec, usize)> = vec![];
        for s in fam(5) {
            // (the batch form of EFT over an Ema is O(t^2); over an Sma it is O(t))
            let s = if s.kind == Eft { Spec::with_ma(Eft, 5, e(), Spec::un(Sma, 3, e())) } else { s };
            list.push(("long run", s, 66_000));
        }
        list.push(("long run", Spec::unp(LaguerreFilter, 0, vec![0.3], e()), 66_000));
        for s in fam(300) {
            list.push(("wide window", s, 620));
        }
        for (label, spec, len) in list {
            let at = boundary_steps(len, spec.n.max(1), if len > 10_000 { if quick { 997 } else { 127 } } else if quick { 23 } else { 3 });
            jobs.push(Box::new(move || {
                let mut st = Stats::default();
                let sink = Sink::new();
                ref_drivers_sparse::<f64>("C11", &spec, &scale_drivers(len, spec.n.max(1)), &at, &mut st, &sink, &|h, hf, v, out| oracle::<f64>(&spec, h, hf, v, out));
                JobOut { stats: st, viols: sink.take(), samples: vec![json!({"explorer":"LONG (sparse oracle)","scalar":"f64","view":spec.name(),"family":label,"steps":len,"judged_steps":at.len(),"drivers":4})] }
            }));
        }
    }
    // quiet stretches: a lively prefix, L identical values, a lively suffix. A recursion's state keeps
    // evolving while its input (and eventually its own deviation) is exactly constant; a shortcut taken
    // there shows only in what follows the stretch.
    {
        use Kind::*;
        let e = Spec::echo;
        let mut list: Vec<Spec> = vec![];
        for n in if quick { vec![2usize, 3, 4, 7, 12] } else { vec![2, 3, 4, 5, 7, 9, 12, 16, 24] } {
            list.push(Spec::un(SuperSmoother, n, e()));
            list.push(Spec::un(LaguerreRsi, n, e()));
            list.push(Spec::roofing(n, 2, e()));
            list.push(Spec::with_ma(Eft, n, e(), Spec::un(Ema, 2, e())));
            list.push(Spec::un(CyberCycle, n, e()));
            if n >= 3 {
                list.push(Spec::un(TrendFlex, n, e()));
                list.push(Spec::un(ReFlex, n, e()));
                list.push(Spec::with_ma(Pfe, n, e(), Spec::un(Sma, 2, e())));
            }
        }
        list.push(Spec::unp(LaguerreFilter, 0, vec![0.0], e()));
        list.push(Spec::unp(LaguerreFilter, 0, vec![0.5], e()));
        for spec in list {
            jobs.push(Box::new(move || {
                let mut st = Stats::default();
                let sink = Sink::new();
                let lively: [&[f64]; 2] = [&[0.0, 1.0, -1.0, 2.0, 0.5], &[3.0, 1.0, 1.0, -2.0]];
                let mut drivers: Vec<(&'static str, Vec<f64>)> = vec![];
                for l in [12usize, 30, 100, 400] {
                    for c in [1.0, 0.0, -0.7] {
                        for (a, b) in [(0usize, 1usize), (1, 0)] {
                            let mut h = lively[a].to_vec();
                            h.extend(std::iter::repeat(c).take(l));
                            h.extend_from_slice(lively[b]);
                            h.extend_from_slice(lively[a]);
                            drivers.push(("lively / flat / lively", h));
                        }
                    }
                }
                let len = drivers.iter().map(|d| d.1.len()).max().unwrap_or(0);
                // judged around both ends of the stretch and sparsely inside it (the batch form is O(t) or worse)
                let mut at: std::collections::BTreeSet<usize> = (0..30).collect();
                for l in [12usize, 30, 100, 400] {
                    at.extend(l..l + 16);
                }
                at.extend((0..len).step_by(17));
                ref_drivers_sparse::<f64>("C11", &spec, &drivers, &at, &mut st, &sink, &|h, hf, v, out| oracle::<f64>(&spec, h, hf, v, out));
                JobOut { stats: st, viols: sink.take(), samples: vec![json!({"explorer":"LONG (sparse oracle)","scalar":"f64","view":spec.name(),"driver":"2 lively prefixes x flat stretches of 12, 30, 100, 400 values at 3 levels x 2 lively suffixes","drivers":24})] }
            }));
        }
    }
    // delayed inner view: each indicator chained behind a view with a warm-up of its own (Sma(3): two
    // silent updates; Ema(2): one). The indicator's own warm-up and start-up state must count the
    // delivered values only.
    {
        use Kind::*;
        let e = Spec::echo;
        let inners = [Spec::un(Sma, 3, e()), Spec::un(Ema, 2, e())];
        for inner in inners {
            let i = || inner.clone();
            let mut list: Vec<Spec> = vec![];
            for n in if quick { vec![2usize, 3, 5] } else { vec![1, 2, 3, 4, 5, 7] } {
                list.push(Spec::un(SuperSmoother, n, i()));
                list.push(Spec::un(LaguerreRsi, n, i()));
                if n >= 2 {
                    list.push(Spec::roofing(n, 2, i()));
                    list.push(Spec::roofing(n, 3, i()));
                    list.push(Spec::with_ma(Eft, n, i(), Spec::un(Sma, 3, e())));
                }
                list.push(Spec::un(CyberCycle, n, i()));
                if n >= 3 {
                    list.push(Spec::un(TrendFlex, n, i()));
                    list.push(Spec::un(ReFlex, n, i()));
                    list.push(Spec::with_ma(Pfe, n, i(), Spec::un(Sma, 2, e())));
                }
            }
            list.push(Spec::unp(LaguerreFilter, 0, vec![0.3], i()));
            for spec in list {
                let depth = (spec.n.max(1) + 5).min(if quick { 8 } else { 10 });
                jobs.push(Box::new(move || {
                    let mut st = Stats::default();
                    let sink = Sink::new();
                    delayed_run::<f64>(&spec, &Z3, depth, &mut st, &sink);
                    JobOut { stats: st, viols: sink.take(), samples: vec![json!({"explorer":"TREE (every word)","scalar":"f64","view":spec.name(),"family":"delayed inner view","alphabet":Z3.to_vec(),"depth":depth})] }
                }));
            }
        }
    }
    let o = run_jobs(jobs, ctx.seed);
    CheckOutput {
        stats: o.stats,
        violations: o.viols,
        samples: o.samples,
        rule: "each Ehlers-style view x N from its minimum x (TREE over Z3 and dyadic D4 at f64 and, for N<=4, at Q; all Z3 cycles of period<=4 extended to 3N+10 for N>4); every step compared with a from-scratch batch evaluation of the cited difference equations".into(),
        assumptions: vec![
            "start-up conventions (which state is 0 / first value, suppressed leading outputs) are taken from the code; equations and coefficients from the statement".into(),
            "cos(1.414*pi/N) and cos(4.4422/N) are both accepted (DESIGN 1.5)".into(),
        ],
        exhaustive: true,
        bounds: json!({"N": if quick {"min, min+1, 8"} else {"min..=10, 16, 20, 48"}}),
    }
}
