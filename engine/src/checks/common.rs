//! Shared drivers: explore a view with TREE / CLOSURE and compare every node
//! with a batch reference model that is a function of the complete history.

use crate::explore::{closure, tree, Step};
use crate::report::{Sink, Stats, Violation};
use crate::scalar::Scalar;
use crate::spec::{build, Dyn, Spec};
use sliding_features::View;

/// one comparison between implementation and reference at a node
pub struct Cmp<T> {
    pub clause: &'static str,
    pub got: Option<T>,
    pub want: Option<T>,
    /// further acceptable answers (documented ambiguities only)
    pub alt: Vec<Option<T>>,
    /// absolute tolerance when the scalar is a float
    pub tol: f64,
    pub tags: Vec<String>,
}

impl<T: Scalar> Cmp<T> {
    pub fn new(clause: &'static str, got: Option<T>, want: Option<T>, tol: f64) -> Cmp<T> {
        Cmp { clause, got, want, alt: vec![], tol, tags: vec![] }
    }
    pub fn tag(mut self, t: &str) -> Self {
        self.tags.push(t.to_string());
        self
    }
    pub fn or(mut self, w: Option<T>) -> Self {
        self.alt.push(w);
        self
    }
    pub fn tag_if(mut self, c: bool, t: &str) -> Self {
        if c {
            self.tags.push(t.to_string());
        }
        self
    }
}

/// Is `got` acceptable for `want`? `tainted` = an inexact (irrational)
/// operation happened somewhere on this path at the exact scalar.
pub fn agrees<T: Scalar>(got: Option<T>, want: Option<T>, tol: f64, tainted: bool) -> bool {
    match (got, want) {
        (None, None) => true,
        (Some(g), Some(w)) => {
            if T::EXACT {
                if !tainted {
                    g == w
                } else {
                    if g == w {
                        return true;
                    }
                    let (gf, wf) = (g.f(), w.f());
                    if !gf.is_finite() || !wf.is_finite() {
                        return gf == wf || (gf.is_nan() && wf.is_nan());
                    }
                    (gf - wf).abs() <= 1e-9 * (1.0 + wf.abs())
                }
            } else {
                let (gf, wf) = (g.f(), w.f());
                if !gf.is_finite() || !wf.is_finite() {
                    return gf == wf;
                }
                // tolerances are written for f64 (1e-9 of the scale); f32 gets 1e-4 of the scale
                let tol = if T::EPS > 1e-10 { tol * 1e5 } else { tol };
                (gf - wf).abs() <= tol
            }
        }
        _ => false,
    }
}

pub fn show<T: Scalar>(x: Option<T>) -> String {
    match x {
        None => "None".into(),
        Some(v) => {
            if T::EXACT {
                format!("{} (~{:e})", v.key(), v.f())
            } else {
                format!("{:e}", v.f())
            }
        }
    }
}

pub fn to_t<T: Scalar>(h: &[f64]) -> Vec<T> {
    h.iter().map(|x| T::of(*x)).collect()
}

pub fn max_abs(h: &[f64]) -> f64 {
    h.iter().fold(0.0f64, |m, x| m.max(x.abs()))
}

/// oracle: (history as T, history as f64, implementation after the update) -> comparisons
pub type Oracle<'a, T> = dyn Fn(&[T], &[f64], &Dyn<T>, &mut Vec<Cmp<T>>) + 'a;

#[derive(Clone)]
pub struct RefState<T: Scalar> {
    pub v: Dyn<T>,
    pub tainted: bool,
}

fn eval_node<T: Scalar>(
    property: &str,
    spec: &Spec,
    s: &mut RefState<T>,
    hist: &[f64],
    st: &mut Stats,
    oracle: &Oracle<T>,
    sink: &Sink,
) -> Step {
    let c0 = T::inexact();
    let x = T::of(*hist.last().unwrap());
    s.v.update(x);
    st.transitions += 1;
    let ht: Vec<T> = to_t::<T>(hist);
    let mut cmps = vec![];
    oracle(&ht, hist, &s.v, &mut cmps);
    if T::inexact() > c0 {
        s.tainted = true;
    }
    let mut bad = false;
    for c in cmps {
        st.oracle_evals += 1;
        st.out(c.got.map(|g| g.f()));
        if !agrees(c.got, c.want, c.tol, s.tainted) && !c.alt.iter().any(|w| agrees(c.got, *w, c.tol, s.tainted)) {
            bad = true;
            sink.push(
                Violation::new(
                    property,
                    spec,
                    c.clause,
                    T::NAME,
                    hist,
                    format!("{}: implementation {} but the definition gives {}", c.clause, show(c.got), show(c.want)),
                )
                .tags(&c.tags),
            );
        }
    }
    if bad {
        Step::Prune
    } else {
        Step::Go
    }
}

fn panic_violation(property: &str, spec: &Spec, scalar: &str, hist: &[f64], msg: String) -> Violation {
    Violation::new(property, spec, "panicked", scalar, hist, format!("panicked: {}", msg))
}

/// Build a configuration the catalogue deems valid; a constructor that panics on it is reported
/// (the check cannot judge the view at all otherwise) instead of crashing the engine.
pub fn build_or_report<T: Scalar>(property: &str, spec: &Spec, sink: &Sink) -> Option<Dyn<T>> {
    match crate::explore::guard(|| build::<T>(spec)) {
        Ok(v) => Some(v),
        Err(m) => {
            sink.push(Violation::new(property, spec, "panicked", T::NAME, &[], format!("the constructor panicked on a valid configuration: {}", m)));
            None
        }
    }
}

/// TREE over `alpha`^<=depth, oracle at every node.
pub fn ref_tree<T: Scalar>(
    property: &str,
    spec: &Spec,
    alpha: &[f64],
    depth: usize,
    st: &mut Stats,
    sink: &Sink,
    oracle: &Oracle<T>,
) {
    let c0 = T::inexact();
    let Some(v) = build_or_report::<T>(property, spec, sink) else { return };
    let root = RefState { v, tainted: T::inexact() > c0 };
    st.configs += 1;
    tree::<T, RefState<T>>(
        &root,
        alpha,
        depth,
        st,
        &mut |s, hist, st| eval_node(property, spec, s, hist, st, oracle, sink),
        &mut |hist, msg| sink.push(panic_violation(property, spec, T::NAME, hist, msg)),
    );
}

/// CLOSURE over `alpha`; the state key is the Debug rendering of the real
/// struct plus the last `k` inputs plus the implementation's current output
/// (the reference may depend on a held previous output).
pub fn ref_closure<T: Scalar>(
    property: &str,
    spec: &Spec,
    alpha: &[f64],
    k: usize,
    cap: usize,
    max_depth: usize,
    st: &mut Stats,
    sink: &Sink,
    oracle: &Oracle<T>,
) -> bool {
    #[derive(Clone)]
    struct S<T: Scalar> {
        r: RefState<T>,
        recent: Vec<f64>,
    }
    let Some(v) = build_or_report::<T>(property, spec, sink) else { return false };
    let root = S { r: RefState { v, tainted: false }, recent: vec![] };
    st.configs += 1;
    let res = closure::<S<T>>(
        root,
        alpha,
        cap,
        max_depth,
        st,
        &|s| format!("{:?}|{:?}", s.r.v, s.recent),
        &mut |s, hist, st| {
            s.recent.push(*hist.last().unwrap());
            if s.recent.len() > k {
                s.recent.remove(0);
            }
            eval_node(property, spec, &mut s.r, hist, st, oracle, sink)
        },
        &mut |hist, msg| sink.push(panic_violation(property, spec, T::NAME, hist, msg)),
    );
    res.closed
}

/// Deterministic base histories that fill and slide a window of length n before an
/// exhaustively enumerated suffix: a staircase with ties, a zig-zag with zeros and both
/// signs, and a descent into a flat stretch.
pub fn bases(n: usize) -> Vec<Vec<f64>> {
    let l = 2 * n + 1;
    vec![
        (0..l).map(|i| ((i / 2) % 4) as f64 - 1.0).collect(),
        (0..l).map(|i| [1.0, -1.0, 0.0, 0.0, 1.0, 1.0, -1.0, 2.0, -2.0][i % 9]).collect(),
        (0..l).map(|i| if i < n { (n - i) as f64 } else { 0.0 }).collect(),
    ]
}

/// Larger windows than a TREE from the empty history can fill: for every base history, the
/// oracle is evaluated along the base, and then at every node of TREE(alpha^<=depth) grown from
/// the state the base leaves behind. The exhaustive dimension is the suffix.
pub fn ref_tree_from_bases<T: Scalar>(
    property: &str,
    spec: &Spec,
    base_list: &[Vec<f64>],
    alpha: &[f64],
    depth: usize,
    st: &mut Stats,
    sink: &Sink,
    oracle: &Oracle<T>,
) {
    for base in base_list {
        T::reset_arena();
        let c0 = T::inexact();
        let Some(v) = build_or_report::<T>(property, spec, sink) else { return };
        let mut root = RefState { v, tainted: T::inexact() > c0 };
        st.configs += 1;
        let mut ok = true;
        for i in 0..base.len() {
            let r = crate::explore::guard(|| eval_node(property, spec, &mut root, &base[..=i], st, oracle, sink));
            match r {
                Ok(Step::Go) => {}
                Ok(Step::Prune) => {
                    ok = false;
                    break;
                }
                Err(m) => {
                    sink.push(panic_violation(property, spec, T::NAME, &base[..=i], m));
                    ok = false;
                    break;
                }
            }
        }
        st.states += base.len() as u64;
        if !ok {
            continue;
        }
        tree::<T, RefState<T>>(
            &root,
            alpha,
            depth,
            st,
            &mut |s, hist, st| {
                let mut full = base.clone();
                full.extend_from_slice(hist);
                eval_node(property, spec, s, &full, st, oracle, sink)
            },
            &mut |hist, msg| {
                let mut full = base.clone();
                full.extend_from_slice(hist);
                sink.push(panic_violation(property, spec, T::NAME, &full, msg))
            },
        );
    }
}

/// Long histories: every cycle over `alpha` of period <= `period`, extended to `len` updates, the
/// oracle evaluated at every step. Catches behaviour keyed on the number of updates or evictions
/// (periodic re-synchronisation, compaction, counters) that no short TREE reaches.
pub fn ref_long_cycles<T: Scalar>(property: &str, spec: &Spec, alpha: &[f64], period: usize, len: usize, st: &mut Stats, sink: &Sink, oracle: &Oracle<T>) {
    st.configs += 1;
    for cyc in crate::explore::cycles(alpha, period) {
        T::reset_arena();
        let c0 = T::inexact();
        let Some(v) = build_or_report::<T>(property, spec, sink) else { return };
        let mut s = RefState { v, tainted: T::inexact() > c0 };
        let hist: Vec<f64> = (0..len).map(|i| cyc[i % cyc.len()]).collect();
        let mut bad = false;
        for i in 0..len {
            match crate::explore::guard(|| eval_node(property, spec, &mut s, &hist[..=i], st, oracle, sink)) {
                Ok(Step::Go) => {}
                Ok(Step::Prune) => {
                    bad = true;
                    break;
                }
                Err(m) => {
                    sink.push(panic_violation(property, spec, T::NAME, &hist[..=i], m));
                    bad = true;
                    break;
                }
            }
        }
        st.states += len as u64;
        st.traces += 1;
        if bad {
            return;
        }
    }
}

/// Structured histories: every sequence of up to `max_phases` phases from a menu of eight, each
/// phase sized to the window (N+1 values) and continuing from the last value of the previous one:
/// two plateaus, strictly rising / falling ramps, a zig-zag, a spike and return, a staircase with
/// ties, a sign flip. They reach states that need 2N..4N particular values (a plateau that slides
/// out under a ramp, an extremum evicted while a tie enters, ...) for any window length.
pub fn phase_drivers(n: usize, max_phases: usize) -> Vec<Vec<f64>> {
    let l = n + 1;
    let phase = |k: usize, last: f64| -> Vec<f64> {
        match k {
            0 => vec![0.0; l],
            1 => vec![1.0; l],
            2 => (1..=l).map(|i| last + i as f64).collect(),
            3 => (1..=l).map(|i| last - i as f64).collect(),
            4 => (0..l).map(|i| last + if i % 2 == 0 { 1.0 } else { -1.0 }).collect(),
            5 => vec![last + 100.0, last],
            6 => (0..l).map(|i| last + (i / 2) as f64).collect(),
            _ => vec![-last, -last + 0.5],
        }
    };
    let mut out: Vec<Vec<f64>> = vec![];
    let mut frontier: Vec<Vec<f64>> = vec![vec![]];
    for _ in 0..max_phases {
        let mut next = vec![];
        for h in &frontier {
            let last = h.last().copied().unwrap_or(0.0);
            for k in 0..8 {
                let mut g = h.clone();
                g.extend(phase(k, last));
                next.push(g);
            }
        }
        out.extend(next.iter().cloned());
        frontier = next;
    }
    out
}

/// run the oracle at every step of every driver
pub fn ref_drivers<T: Scalar>(property: &str, spec: &Spec, drivers: &[Vec<f64>], st: &mut Stats, sink: &Sink, oracle: &Oracle<T>) {
    st.configs += 1;
    for hist in drivers {
        T::reset_arena();
        let c0 = T::inexact();
        let Some(v) = build_or_report::<T>(property, spec, sink) else { return };
        let mut s = RefState { v, tainted: T::inexact() > c0 };
        let mut bad = false;
        for i in 0..hist.len() {
            match crate::explore::guard(|| eval_node(property, spec, &mut s, &hist[..=i], st, oracle, sink)) {
                Ok(Step::Go) => {}
                Ok(Step::Prune) => {
                    bad = true;
                    break;
                }
                Err(m) => {
                    sink.push(panic_violation(property, spec, T::NAME, &hist[..=i], m));
                    bad = true;
                    break;
                }
            }
        }
        st.states += hist.len() as u64;
        st.traces += 1;
        if bad {
            return;
        }
    }
}

/// wall-clock budget of one scale-family driver
pub const SCALE_BUDGET_S: u64 = 25;

/// Steps (0-based) at which windows fill and slide and at which counters of the usual integer
/// widths wrap: around K and 2K, around every power of two from 64 to 131072, around every
/// multiple of 1024, the last three steps, and every `stride`-th step in between.
pub fn boundary_steps(len: usize, k: usize, stride: usize) -> std::collections::BTreeSet<usize> {
    let mut s = std::collections::BTreeSet::new();
    let mut around = |c: usize, r: usize| {
        for i in c.saturating_sub(r)..=c + r {
            if i < len {
                s.insert(i);
            }
        }
    };
    around(k.saturating_sub(1), 2);
    around((2 * k).saturating_sub(1), 2);
    for p in 6..=17 {
        around((1usize << p) - 1, 2);
        around((1usize << p) + k - 1, 1);
    }
    let mut m = 1024;
    while m < len {
        around(m - 1, 1);
        m += 1024;
    }
    around(len.saturating_sub(2), 1);
    let mut i = 0;
    while i < len {
        s.insert(i);
        i += stride.max(1);
    }
    s
}

/// Integer-valued drivers of any length (sums stay exact in f64): a lone 2 followed by ones, a
/// moving sawtooth with ties and evicted extremes, signed quadratic residues with zeros, and
/// ramps separated by plateaus whose length follows the window.
pub fn scale_drivers(len: usize, n: usize) -> Vec<(&'static str, Vec<f64>)> {
    let seg = n.max(2) + 3;
    vec![
        ("2,1,1,1,...", (0..len).map(|i| if i == 0 { 2.0 } else { 1.0 }).collect()),
        ("moving sawtooth", (0..len).map(|i| ((i % 7) + (i / 50) % 5) as f64).collect()),
        ("quadratic residues mod 31, centred", (0..len).map(|i| ((i * i) % 31) as f64 - 15.0).collect()),
        (
            "ramp / plateau / descent, segments of N+3",
            (0..len)
                .map(|i| {
                    let (q, r) = ((i / seg) % 4, i % seg);
                    match q {
                        0 => r as f64,
                        1 => seg as f64,
                        2 => (seg - r) as f64,
                        _ => if r % 2 == 0 { 0.0 } else { -1.0 },
                    }
                })
                .collect(),
        ),
    ]
}

/// Run the real view along every driver, updating at every step but consulting the oracle only at
/// the steps in `at` (the oracle recomputes the definition from the history, O(N) or worse): long
/// runs (behaviour keyed on update counts far beyond any TREE), wide and huge windows (behaviour
/// keyed on the window length exceeding an integer width).
pub fn ref_drivers_sparse<T: Scalar>(property: &str, spec: &Spec, drivers: &[(&'static str, Vec<f64>)], at: &std::collections::BTreeSet<usize>, st: &mut Stats, sink: &Sink, oracle: &Oracle<T>) {
    st.configs += 1;
    for (_, hist) in drivers {
        T::reset_arena();
        let c0 = T::inexact();
        let Some(v) = build_or_report::<T>(property, spec, sink) else { return };
        let mut s = RefState { v, tainted: T::inexact() > c0 };
        let mut ht: Vec<T> = Vec::with_capacity(hist.len());
        let started = std::time::Instant::now();
        for i in 0..hist.len() {
            // a wall-clock budget per driver: a change that turns an O(1) update into O(N) must make this
            // family give up (counted in the evidence), not hang the whole check into its watchdog
            if i % 4096 == 4095 && started.elapsed().as_secs() > SCALE_BUDGET_S {
                st.bump("scale_family_budget_exceeded", 1);
                return;
            }
            let c0 = T::inexact();
            let x = T::of(hist[i]);
            ht.push(x);
            if let Err(m) = crate::explore::guard(|| s.v.update(x)) {
                sink.push(panic_violation(property, spec, T::NAME, &hist[..=i], m));
                return;
            }
            st.transitions += 1;
            if !at.contains(&i) {
                if T::inexact() > c0 {
                    s.tainted = true;
                }
                continue;
            }
            let mut cmps = vec![];
            if let Err(m) = crate::explore::guard(|| oracle(&ht, &hist[..=i], &s.v, &mut cmps)) {
                sink.push(panic_violation(property, spec, T::NAME, &hist[..=i], m));
                return;
            }
            if T::inexact() > c0 {
                s.tainted = true;
            }
            for c in cmps {
                st.oracle_evals += 1;
                st.out(c.got.map(|g| g.f()));
                if !agrees(c.got, c.want, c.tol, s.tainted) && !c.alt.iter().any(|w| agrees(c.got, *w, c.tol, s.tainted)) {
                    sink.push(
                        Violation::new(property, spec, c.clause, T::NAME, &hist[..=i], format!("{}: after {} updates the implementation reports {} but the definition gives {}", c.clause, i + 1, show(c.got), show(c.want))).tags(&c.tags),
                    );
                    return;
                }
            }
        }
        st.states += hist.len() as u64;
        st.traces += 1;
    }
}

/// the three scale families shared by the definition checks: (label, N, run length, judged steps)
pub fn scale_families(k_of: &dyn Fn(usize) -> usize, quick: bool, cheap_update: bool, quadratic: bool) -> Vec<(&'static str, usize, usize, std::collections::BTreeSet<usize>)> {
    let mut v = vec![];
    // long: a small window run past 2^16 updates
    let (n, len) = (5usize, if quadratic { 66_000 } else { 66_000 });
    v.push(("long run", n, len, boundary_steps(len, k_of(n), if quick { 499 } else { 61 })));
    // wide: a window beyond 2^8
    let n = if quadratic { 260 } else { 300 };
    let len = 2 * k_of(n) + 8;
    v.push(("wide window", n, len, boundary_steps(len, k_of(n), if quadratic { 97 } else if quick { 29 } else { 5 })));
    // huge: a window beyond 2^16, only where one update costs O(1)
    if cheap_update {
        let n = 70_000;
        let len = 2 * k_of(n) + 8;
        v.push(("huge window", n, len, boundary_steps(len, k_of(n), if quick { 50_021 } else { 9_973 })));
    }
    v
}
