//! C15 — no panic: every constructed view accepts every finite in-domain stream.

use crate::catalogue::*;
use crate::explore::{guard, run_jobs, sequences_upto, tree, Job, JobOut, Step};
use crate::report::{CheckOutput, Sink, Stats, Violation};
use crate::scalar::Scalar;
use crate::spec::{build, mk, unary_catalogue, Dyn, Kind, Spec, BINARY};
use crate::{Ctx, Tier};
use serde_json::json;
use sliding_features::View;

fn alphabet(spec: &Spec) -> Vec<f64> {
    if needs_positive(spec) {
        vec![1.0, 2.0, 3.0, 0.5]
    } else {
        vec![0.0, 1.0, -1.0, 0.5]
    }
}

fn file_stem(k: Kind) -> &'static str {
    use Kind::*;
    match k {
        Probe | Never => "harness",
        Echo => "echo",
        Constant => "constant",
        Add => "add",
        Subtract => "subtract",
        Multiply => "multiply",
        Divide => "divide",
        GTE => "gte",
        LTE => "lte",
        Tanh => "tanh",
        Sma => "sma",
        Ema | EmaAlpha => "ema",
        Alma | AlmaCustom => "alma",
        Cumulative => "cumulative",
        Min => "min",
        Max => "max",
        Roc => "roc",
        WelfordOnline => "welford_online",
        Vst => "variance_stabilizing_transformation",
        Vsct => "vsct",
        HLNormalizer => "hl_normalizer",
        BinaryEntropy => "binary_entropy",
        CenterOfGravity => "center_of_gravity",
        Cti => "correlation_trend_indicator",
        Net => "noise_elimination_technology",
        Rsi => "rsi",
        MyRsi => "my_rsi",
        Pfe => "polarized_fractal_efficiency",
        Eft => "ehlers_fisher_transform",
        LaguerreFilter => "laguerre_filter",
        LaguerreRsi => "laguerre_rsi",
        SuperSmoother => "super_smoother",
        Roofing => "roofing_filter",
        CyberCycle => "cyber_cycle",
        TrendFlex => "trend_flex",
        ReFlex => "re_flex",
        WelfordRolling => "welford_rolling",
        Drawdown => "drawdown",
        LnReturn => "ln_return",
    }
}

/// the node of the program whose source file the panic location names
fn culprit<'a>(spec: &'a Spec, msg: &str) -> Option<&'a Spec> {
    if msg.contains(&format!("/{}.rs:", file_stem(spec.kind))) {
        return Some(spec);
    }
    spec.ch.iter().find_map(|c| culprit(c, msg))
}

fn violation<T: Scalar>(spec: &Spec, hist: &[f64], msg: String) -> Violation {
    let mut v = Violation::new("C15", spec, "no-panic", T::NAME, hist, format!("panicked: {}", msg));
    if let Some(c) = culprit(spec, &msg) {
        v.kind = c.kind_name();
        v.n = c.n;
    }
    v
}

fn check_tree<T: Scalar>(spec: &Spec, depth: usize, st: &mut Stats, sink: &Sink) {
    let alpha = alphabet(spec);
    let root = match guard(|| build::<T>(spec)) {
        Ok(r) => r,
        Err(_) => {
            st.skipped_configs += 1; // the constructor defines the accepted domain
            return;
        }
    };
    st.configs += 1;
    if let Err(m) = guard(|| root.last()) {
        sink.push(violation::<T>(spec, &[], m));
        return;
    }
    tree::<T, Dyn<T>>(
        &root,
        &alpha,
        depth,
        st,
        &mut |v, hist, st| {
            v.update(T::of(*hist.last().unwrap()));
            let l = v.last();
            st.transitions += 1;
            st.oracle_evals += 1;
            st.out(l.map(|x| x.f()));
            Step::Go
        },
        &mut |hist, msg| sink.push(violation::<T>(spec, hist, msg)),
    );
}

/// windows longer than the tree can fill: every sequence in A^<=4 extended
/// cyclically, and as a constant, to `len` updates
fn check_long<T: Scalar>(spec: &Spec, seqs: &[Vec<f64>], len: usize, st: &mut Stats, sink: &Sink) {
    if guard(|| build::<T>(spec)).is_err() {
        st.skipped_configs += 1;
        return;
    }
    st.configs += 1;
    for s in seqs {
        if s.is_empty() {
            continue;
        }
        for mode in 0..2 {
            let hist: Vec<f64> = (0..len).map(|i| if mode == 0 { s[i % s.len()] } else { s[i.min(s.len() - 1)] }).collect();
            let mut v = build::<T>(spec);
            let mut upto = 0usize;
            let r = guard(|| {
                for (i, x) in hist.iter().enumerate() {
                    upto = i;
                    v.update(T::of(*x));
                    let _ = v.last();
                }
            });
            st.transitions += len as u64;
            st.states += len as u64;
            st.traces += 1;
            if let Err(m) = r {
                sink.push(violation::<T>(spec, &hist[..=upto], m));
                return;
            }
        }
    }
}

pub fn run(ctx: &Ctx) -> CheckOutput {
    let quick = ctx.tier == Tier::Quick;
    let depth = if quick { 7 } else { 9 };
    let mut jobs: Vec<Job> = vec![];
    // every view, all variants, N = 1..8 exhaustively by TREE
    for n in 1..=8usize {
        for e in unary_catalogue() {
            if !e.has_n && n != 1 {
                continue;
            }
            for spec in variants(e.kind, n, &Spec::echo()) {
                jobs.push(Box::new(move || {
                    let mut st = Stats::default();
                    let sink = Sink::new();
                    check_tree::<f64>(&spec, depth, &mut st, &sink);
                    if !quick {
                        check_tree::<f32>(&spec, depth.min(6), &mut st, &sink);
                    }
                    JobOut { stats: st, viols: sink.take(), samples: vec![json!({"explorer":"TREE","view":spec.name(),"ops":"update(v) for v in {0,1,-1,0.5} (positive letters for positive-domain views), last() at every state","depth":depth})] }
                }));
            }
        }
    }
    // N = 5..64: windows longer than the tree
    let ns: Vec<usize> = if quick { vec![5, 6, 7, 8, 9, 10, 12, 16, 20, 32, 48, 64] } else { (5..=64).collect() };
    for n in ns {
        for e in unary_catalogue() {
            if !e.has_n {
                continue;
            }
            for spec in variants(e.kind, n, &Spec::echo()) {
                jobs.push(Box::new(move || {
                    let mut st = Stats::default();
                    let sink = Sink::new();
                    let seqs = sequences_upto(&alphabet(&spec)[..3], if quick { 3 } else { 4 });
                    check_long::<f64>(&spec, &seqs, 2 * n + 8, &mut st, &sink);
                    // values that are not exactly representable (running sums round)
                    let dec: Vec<f64> = if needs_positive(&spec) { vec![0.1, 0.7, 3.3] } else { vec![0.1, 0.7, -0.3] };
                    check_long::<f64>(&spec, &sequences_upto(&dec, 3), 2 * n + 8, &mut st, &sink);
                    JobOut { stats: st, viols: sink.take(), samples: vec![] }
                }));
            }
        }
    }
    // one very long stream per view (counters narrower than usize overflow under overflow checks)
    for e in unary_catalogue() {
        for spec in variants(e.kind, 3, &Spec::echo()) {
            jobs.push(Box::new(move || {
                let mut st = Stats::default();
                let sink = Sink::new();
                let a = alphabet(&spec);
                let seqs = vec![vec![a[1], a[2], a[0], a[3]]];
                check_long::<f64>(&spec, &seqs, if quick { 70_000 } else { 300_000 }, &mut st, &sink);
                JobOut { stats: st, viols: sink.take(), samples: vec![] }
            }));
        }
    }
    // slow numeric blow-ups must reach the internal finiteness assertions (an unstable recursion needs a
    // few hundred updates to overflow): quick N = 1..4 over 1500 updates, thorough N = 1..16 over 20000
    if quick {
        for n in 1..=4usize {
            for e in unary_catalogue() {
                if !e.has_n && n != 1 {
                    continue;
                }
                for spec in variants(e.kind, n, &Spec::echo()) {
                    jobs.push(Box::new(move || {
                        let mut st = Stats::default();
                        let sink = Sink::new();
                        let seqs = crate::explore::cycles(&alphabet(&spec)[..3], 2);
                        check_long::<f64>(&spec, &seqs, 1500, &mut st, &sink);
                        JobOut { stats: st, viols: sink.take(), samples: vec![] }
                    }));
                }
            }
        }
    }
    if !quick {
        for n in 1..=16usize {
            for e in unary_catalogue() {
                if !e.has_n && n != 1 {
                    continue;
                }
                for spec in variants(e.kind, n, &Spec::echo()) {
                    jobs.push(Box::new(move || {
                        let mut st = Stats::default();
                        let sink = Sink::new();
                        let seqs = crate::explore::cycles(&alphabet(&spec)[..3], 3);
                        check_long::<f64>(&spec, &seqs, 20000, &mut st, &sink);
                        JobOut { stats: st, viols: sink.take(), samples: vec![] }
                    }));
                }
            }
        }
    }
    // every two-level chain, N in {1,2,3}^2 (actual small windows, not clamped)
    let cdepth = if quick { 5 } else { 7 };
    for o in unary_catalogue() {
        let ons: Vec<usize> = if o.has_n { vec![1, 2, 3] } else { vec![1] };
        for on in ons {
            jobs.push(Box::new(move || {
                let mut st = Stats::default();
                let sink = Sink::new();
                for i in unary_catalogue() {
                    let ins: Vec<usize> = if i.has_n { vec![1, 2, 3] } else { vec![1] };
                    for inn in ins {
                        let spec = mk(o.kind, on, mk(i.kind, inn, Spec::echo()));
                        if !domain_ok(&spec) {
                            continue;
                        }
                        check_tree::<f64>(&spec, cdepth, &mut st, &sink);
                    }
                }
                JobOut { stats: st, viols: sink.take(), samples: vec![json!({"explorer":"TREE","outer":format!("{:?}({})", o.kind, on),"inner":"every view, N in 1..3","depth":cdepth})] }
            }));
        }
    }
    // every two-level chain on quiet tails: a short lively prefix, then the last letter repeated (and the
    // prefix repeated cyclically) long enough for a recursive inner view's output to decay through the
    // subnormal range down to exactly zero (about 1100 updates at f64, 160 at f32) - differences and
    // ranges of the window are then tiny or subnormal, which reciprocals and ratios must survive
    for o in unary_catalogue() {
        jobs.push(Box::new(move || {
            let mut st = Stats::default();
            let sink = Sink::new();
            for i in unary_catalogue() {
                for (on, inn) in [(3usize, 2usize), (8, 5)] {
                    let spec = mk(o.kind, on, mk(i.kind, inn, Spec::echo()));
                    if !domain_ok(&spec) {
                        continue;
                    }
                    let a = alphabet(&spec);
                    let seqs = vec![vec![a[1], a[0]], vec![a[1], a[2], a[3], a[0]], vec![a[0], a[1]]];
                    check_long::<f64>(&spec, &seqs, if quick { 1_300 } else { 2_600 }, &mut st, &sink);
                    check_long::<f32>(&spec, &seqs, if quick { 330 } else { 700 }, &mut st, &sink);
                }
            }
            JobOut { stats: st, viols: sink.take(), samples: vec![json!({"explorer":"LONG","outer":format!("{:?}", o.kind),"inner":"every view","driver":"3 short prefixes, each extended as a constant and cyclically","steps":"1300 (f64), 330 (f32)"})] }
        }));
    }
    // combinators (non-zero divisor)
    let pool = [Spec::echo(), Spec::un(Kind::Sma, 2, Spec::echo()), Spec::un(Kind::Roc, 1, Spec::echo()), Spec::unp(Kind::GTE, 0, vec![1.0], Spec::echo()), Spec::constant(2.0)];
    for k in BINARY {
        for a in pool.clone() {
            for b in pool.clone() {
                if k == Kind::Divide && !never_zero(&b) {
                    continue;
                }
                let spec = Spec::bin(k, a.clone(), b);
                jobs.push(Box::new(move || {
                    let mut st = Stats::default();
                    let sink = Sink::new();
                    check_tree::<f64>(&spec, depth.min(6), &mut st, &sink);
                    JobOut { stats: st, viols: sink.take(), samples: vec![] }
                }));
            }
        }
    }
    let o = run_jobs(jobs, ctx.seed);
    let mut out = CheckOutput {
        stats: o.stats,
        violations: o.viols,
        samples: o.samples,
        rule: "every view (all variants) x N in 1..8: TREE over {0,1,-1,0.5} with last() at every state incl. before the first update; N up to 64: every short sequence extended cyclically and as a constant to 2N+8 updates; every two-level chain with N in {1,2,3}^2; combinators; under both the release and the checked (debug assertions + overflow checks) profile".into(),
        assumptions: vec!["last() is called at every state; interleavings that omit it are equivalent because last() is pure (C17)".into(), "constructor panics define the accepted domain".into()],
        exhaustive: true,
        bounds: json!({"tree_depth": depth, "chain_depth": cdepth}),
    };
    // the same exploration under the release profile (debug assertions and overflow checks off)
    if crate::PROFILE == "checked" && std::env::var("VERIF_C15_SINGLE_PROFILE").is_err() {
        let exe = std::env::current_exe().expect("exe");
        let rel = exe.parent().unwrap().parent().unwrap().join("release").join("sfmc");
        let part = crate::report::verif_root().join("evidence").join(".C15-release.partial.json");
        let _ = std::fs::create_dir_all(part.parent().unwrap());
        let status = std::process::Command::new(&rel)
            .args(["check", "C15", "--tier", if quick { "quick" } else { "thorough" }, "--emit", part.to_str().unwrap()])
            .status();
        match status {
            Ok(s) if s.success() => crate::report::merge_partial(&part, &mut out),
            other => {
                eprintln!("MACHINERY ERROR: release-profile engine {:?} did not run: {:?}", rel, other);
                std::process::exit(2);
            }
        }
    }
    out
}
