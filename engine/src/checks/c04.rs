//! C04 — moving averages are genuine averages of their window.

use super::common::*;
use crate::alpha::*;
use crate::explore::{guard, run_jobs, tree, Job, JobOut, Step};
use crate::q::Q;
use crate::refs;
use crate::report::{CheckOutput, Sink, Stats, Violation};
use crate::scalar::Scalar;
use crate::spec::{build, Dyn, Kind, Spec};
use crate::{Ctx, Tier};
use serde_json::json;
use sliding_features::View;

const AFF: [(f64, f64); 4] = [(2.0, 0.0), (1.0, 5.0), (1.5, -7.0), (0.25, 1000.0)];
const DELTAS: [f64; 2] = [1.0, 0.25];

#[derive(Clone)]
struct S<T: Scalar> {
    base: Dyn<T>,
    aff: Vec<Dyn<T>>,
    /// (position perturbed, delta, instance fed x + delta*e_j)
    pert: Vec<(usize, f64, Dyn<T>)>,
    tainted: bool,
}

pub fn specs(quick: bool) -> Vec<Spec> {
    let n_max = if quick { 4 } else { 6 };
    let mut v = vec![];
    for n in 1..=n_max {
        v.push(Spec::un(Kind::Sma, n, Spec::echo()));
        v.push(Spec::un(Kind::Ema, n, Spec::echo()));
        v.push(Spec::unp(Kind::EmaAlpha, n, vec![1.0], Spec::echo()));
        v.push(Spec::unp(Kind::EmaAlpha, n, vec![0.5], Spec::echo()));
        v.push(Spec::un(Kind::Alma, n, Spec::echo()));
        v.push(Spec::unp(Kind::AlmaCustom, n, vec![4.0, 0.5], Spec::echo()));
        v.push(Spec::unp(Kind::AlmaCustom, n, vec![2.0, 1.0], Spec::echo()));
        if !quick && n <= 4 {
            v.push(Spec::unp(Kind::AlmaCustom, n, vec![1.0, 0.0], Spec::echo()));
            v.push(Spec::unp(Kind::AlmaCustom, n, vec![10.0, 0.25], Spec::echo()));
            v.push(Spec::unp(Kind::EmaAlpha, n, vec![0.25], Spec::echo()));
            // w = alpha/(N+1) = 1: the largest admissible weight
            v.push(Spec::unp(Kind::EmaAlpha, n, vec![(n + 1) as f64], Spec::echo()));
        }
    }
    v
}

fn alma_params(spec: &Spec) -> (f64, f64) {
    if spec.kind == Kind::Alma {
        (6.0, 0.85)
    } else {
        (spec.p[0], spec.p[1])
    }
}

fn check_tree<T: Scalar>(spec: &Spec, alpha: &[f64], depth: usize, st: &mut Stats, sink: &Sink) {
    let n = spec.n;
    let c0 = T::inexact();
    if build_or_report::<T>("C04", spec, sink).is_none() {
        return;
    }
    let root = S::<T> {
        base: build::<T>(spec),
        aff: AFF.iter().map(|_| build::<T>(spec)).collect(),
        pert: vec![],
        tainted: false,
    };
    let root = S { tainted: T::inexact() > c0, ..root };
    st.configs += 1;
    let is_ema = matches!(spec.kind, Kind::Ema | Kind::EmaAlpha);
    let viol = |clause: &str, hist: &[f64], detail: String| Violation::new("C04", spec, clause, T::NAME, hist, detail);
    tree::<T, S<T>>(
        &root,
        alpha,
        depth,
        st,
        &mut |s, hist, st| {
            let c0 = T::inexact();
            let xf = *hist.last().unwrap();
            let x = T::of(xf);
            let j = hist.len() - 1;
            // new perturbed twins branch off the state *before* this update
            for d in DELTAS {
                let mut p = s.base.clone();
                p.update(T::of(xf + d));
                s.pert.push((j, d, p));
            }
            let np = s.pert.len();
            for (_, _, p) in s.pert[..np - DELTAS.len()].iter_mut() {
                p.update(x);
            }
            s.base.update(x);
            for (k, (a, b)) in AFF.iter().enumerate() {
                s.aff[k].update(T::of(*a) * x + T::of(*b));
            }
            st.transitions += (1 + AFF.len() + s.pert.len()) as u64;
            let ht: Vec<T> = to_t::<T>(hist);
            let got = s.base.last();
            st.out(got.map(|g| g.f()));
            let mut bad = false;
            let mut fail = |v: Violation| {
                sink.push(v);
                bad = true;
            };
            // readiness must coincide across the lockstep instances
            for (k, a) in s.aff.iter().enumerate() {
                if a.last().is_some() != got.is_some() {
                    fail(viol("affine", hist, format!("instance fed {}*x+{} reports {:?} while the base reports {:?}", AFF[k].0, AFF[k].1, a.last().map(|v| v.f()), got.map(|v| v.f()))));
                }
            }
            if let Some(g) = got {
                // (i) interval
                let w = if is_ema { &ht[..] } else { refs::window(&ht, n) };
                let (lo, hi) = (refs::minv(w), refs::maxv(w));
                st.oracle_evals += 1;
                if g < lo || g > hi {
                    fail(viol("interval", hist, format!("output {} outside [{}, {}] spanned by the averaged values", show(Some(g)), show(Some(lo)), show(Some(hi)))));
                }
                // (v) / (vi) definition
                let tainted_now = s.tainted || T::inexact() > c0;
                match spec.kind {
                    Kind::Sma => {
                        st.oracle_evals += 1;
                        let want = refs::mean(w);
                        if !agrees(Some(g), Some(want), 0.0, tainted_now) {
                            fail(viol("definition", hist, format!("Sma {} but the mean of the last N is {}", show(Some(g)), show(Some(want)))));
                        }
                    }
                    Kind::Ema | Kind::EmaAlpha => {
                        st.oracle_evals += 1;
                        let a = if spec.kind == Kind::Ema { 2.0 } else { spec.p[0] };
                        let wgt = T::of(a) / (T::of(n as f64) + T::one());
                        let want = refs::ema(&ht, wgt);
                        let zero_state = ht[..ht.len() - 1].iter().enumerate().any(|(i, _)| refs::ema(&ht[..=i], wgt) == T::zero());
                        if !agrees(Some(g), Some(want), 0.0, tainted_now) {
                            let mut v = viol("ema-recursion", hist, format!("Ema {} but e_0=x_0, e_t=w x_t+(1-w) e_(t-1) gives {}", show(Some(g)), show(Some(want))));
                            if zero_state {
                                v = v.tag("state_was_zero");
                            }
                            fail(v);
                        }
                    }
                    Kind::Alma | Kind::AlmaCustom => {
                        st.oracle_evals += 1;
                        let (sg, of) = alma_params(spec);
                        let w1 = refs::alma_insertion(&ht, n, T::of(sg), T::of(of));
                        let w2 = refs::alma_positional(&ht, n, T::of(sg), T::of(of));
                        if !agrees(Some(g), Some(w1), 0.0, true) && !agrees(Some(g), Some(w2), 0.0, true) {
                            fail(viol("alma-definition", hist, format!("Alma {} but the normalised Gaussian-weighted mean is {} (weights by insertion index) or {} (by position)", show(Some(g)), show(Some(w1)), show(Some(w2)))));
                        }
                    }
                    _ => {}
                }
                let tainted_now = s.tainted || T::inexact() > c0;
                // (iv) affine
                for (k, (a, b)) in AFF.iter().enumerate() {
                    if let Some(o) = s.aff[k].last() {
                        st.oracle_evals += 1;
                        let want = T::of(*a) * g + T::of(*b);
                        if !agrees(Some(o), Some(want), 0.0, tainted_now) {
                            fail(viol("affine", hist, format!("view({}*x+{}) = {} but {}*view(x)+{} = {}", a, b, show(Some(o)), a, b, show(Some(want)))));
                        }
                    }
                }
                // (iii) monotone
                for (j, d, p) in s.pert.iter() {
                    st.oracle_evals += 1;
                    match p.last() {
                        Some(o) if o >= g => {}
                        o => fail(viol("monotone", hist, format!("raising input {} by {} gives {} < {}", j, d, show(o), show(Some(g))))),
                    }
                }
            }
            if T::inexact() > c0 {
                s.tainted = true;
            }
            if bad {
                Step::Prune
            } else {
                Step::Go
            }
        },
        &mut |hist, msg| sink.push(viol("panicked", hist, msg)),
    );
}

/// (ii) constant streams are reproduced exactly (Q) / within (4N+8) ulp (f64)
/// Long histories at f64: every Z5 cycle of period <= 3 extended to `len` updates; interval and
/// definition at every step (behaviour keyed on the number of updates or evictions).
fn long_definition(spec: &Spec, len: usize, st: &mut Stats, sink: &Sink) {
    st.configs += 1;
    let n = spec.n;
    let is_ema = matches!(spec.kind, Kind::Ema | Kind::EmaAlpha);
    for cyc in crate::explore::cycles(&Z5, 3) {
        let hist: Vec<f64> = (0..len).map(|i| cyc[i % cyc.len()]).collect();
        let r = guard(|| {
            let mut v = build::<f64>(spec);
            // running reference state for Ema (the batch form is O(t) per step)
            let mut e = 0.0f64;
            for i in 0..len {
                v.update(hist[i]);
                let w_ema = if spec.kind == Kind::Ema { 2.0 } else if spec.kind == Kind::EmaAlpha { spec.p[0] } else { 0.0 } / (n as f64 + 1.0);
                e = if i == 0 { hist[0] } else { w_ema * hist[i] + (1.0 - w_ema) * e };
                let Some(g) = v.last() else { continue };
                let h = &hist[..=i];
                let w = if is_ema { h } else { refs::window(h, n) };
                let (lo, hi) = (refs::minv(w), refs::maxv(w));
                let slack = 1e-9 * (1.0 + lo.abs().max(hi.abs()));
                if g < lo - slack || g > hi + slack {
                    return Some((i, "interval", format!("output {:e} outside [{:e}, {:e}] spanned by the averaged values", g, lo, hi)));
                }
                let ok = match spec.kind {
                    Kind::Sma => (g - refs::mean(w)).abs() <= slack,
                    Kind::Ema | Kind::EmaAlpha => (g - e).abs() <= slack,
                    _ => {
                        let (sg, of) = alma_params(spec);
                        // the last 2N values determine both renderings
                        let tail = &h[h.len().saturating_sub(4 * n + 4)..];
                        let _ = tail;
                        (g - refs::alma_insertion(h, n, sg, of)).abs() <= slack || (g - refs::alma_positional(h, n, sg, of)).abs() <= slack
                    }
                };
                if !ok {
                    return Some((i, "definition", format!("output {:e} is not the defined average of its window", g)));
                }
            }
            None
        });
        st.transitions += len as u64;
        st.states += len as u64;
        st.oracle_evals += len as u64;
        st.traces += 1;
        match r {
            Ok(Some((i, clause, d))) => {
                sink.push(Violation::new("C04", spec, clause, "f64", &hist[..=i], format!("cycle {:?} repeated, step {}: {}", cyc, i, d)));
                return;
            }
            Ok(None) => {}
            Err(m) => {
                sink.push(Violation::new("C04", spec, "panicked", "f64", &hist, m));
                return;
            }
        }
    }
}

/// Scale families at f64 (a run past 2^16 updates, a window past 2^8, a window past 2^16): the
/// integer-valued drivers of `scale_drivers`; interval and definition judged at the steps in `at`
/// (Ema, whose reference is a running recursion, at every step).
fn scale_definition(spec: &Spec, len: usize, at: &std::collections::BTreeSet<usize>, st: &mut Stats, sink: &Sink) {
    st.configs += 1;
    let n = spec.n;
    let is_ema = matches!(spec.kind, Kind::Ema | Kind::EmaAlpha);
    let cond = alma_condition(spec);
    for (name, hist) in scale_drivers(len, n) {
        let r = guard(|| {
            let mut v = build::<f64>(spec);
            let w_ema = if spec.kind == Kind::Ema { 2.0 } else if spec.kind == Kind::EmaAlpha { spec.p[0] } else { 0.0 } / (n as f64 + 1.0);
            let (mut e, mut lo_all, mut hi_all) = (0.0f64, f64::MAX, f64::MIN);
            let started = std::time::Instant::now();
            for i in 0..len {
                if i % 4096 == 4095 && started.elapsed().as_secs() > SCALE_BUDGET_S {
                    return None; // budget (see ref_drivers_sparse)
                }
                v.update(hist[i]);
                e = if i == 0 { hist[0] } else { w_ema * hist[i] + (1.0 - w_ema) * e };
                lo_all = lo_all.min(hist[i]);
                hi_all = hi_all.max(hist[i]);
                if !is_ema && !at.contains(&i) {
                    continue;
                }
                let Some(g) = v.last() else { continue };
                let h = &hist[..=i];
                let (lo, hi) = if is_ema { (lo_all, hi_all) } else { (refs::minv(refs::window(h, n)), refs::maxv(refs::window(h, n))) };
                let slack = 1e-9 * (1.0 + lo.abs().max(hi.abs())) * cond;
                if !(g >= lo - slack && g <= hi + slack) {
                    return Some((i, "interval", format!("output {:e} outside [{:e}, {:e}] spanned by the averaged values", g, lo, hi)));
                }
                let ok = match spec.kind {
                    Kind::Sma => (g - refs::mean(refs::window(h, n))).abs() <= slack,
                    Kind::Ema | Kind::EmaAlpha => (g - e).abs() <= slack,
                    _ => {
                        let (sg, of) = alma_params(spec);
                        (g - refs::alma_insertion(h, n, sg, of)).abs() <= slack || (g - refs::alma_positional(h, n, sg, of)).abs() <= slack
                    }
                };
                if !ok {
                    return Some((i, "definition", format!("output {:e} is not the defined average of its window", g)));
                }
            }
            None
        });
        st.transitions += len as u64;
        st.states += len as u64;
        st.oracle_evals += if is_ema { len } else { at.len() } as u64;
        st.traces += 1;
        match r {
            Ok(Some((i, clause, d))) => {
                sink.push(Violation::new("C04", spec, clause, "f64", &hist[..=i], format!("driver '{}', after {} updates: {}", name, i + 1, d)));
                return;
            }
            Ok(None) => {}
            Err(m) => {
                sink.push(Violation::new("C04", spec, "panicked", "f64", &hist, m));
                return;
            }
        }
    }
}

/// Ema with weight exactly 1 (window 1 with the default alpha; with_alpha(N, N+1)) is the identity on
/// its input: e_t = 1*x_t + 0*e_(t-1). Over an alphabet that mixes the units 1 and 2^-70 the identity
/// must hold bit for bit - a recursion written as e + w*(x - e) absorbs a small x next to a large e.
fn ema_unit_weight(spec: &Spec, depth: usize, st: &mut Stats, sink: &Sink) {
    let t = 2f64.powi(-70);
    let alpha = [0.0, 1.0, -1.0, t, -t, 3.0 * t];
    let Some(root) = build_or_report::<f64>("C04", spec, sink) else { return };
    st.configs += 1;
    tree::<f64, Dyn<f64>>(
        &root,
        &alpha,
        depth,
        st,
        &mut |v, hist, st| {
            let x = *hist.last().unwrap();
            v.update(x);
            st.transitions += 1;
            st.oracle_evals += 1;
            let got = v.last();
            st.out(got);
            // (readiness is C08's matter: nothing is demanded before the view reports)
            if !matches!(got, None) && !matches!(got, Some(g) if g == x) {
                sink.push(Violation::new("C04", spec, "ema-recursion", "f64", hist, format!("the weight of the newest value is exactly 1, so e_t = x_t = {:e}, but the view reports {:?}", x, got)).tag("mixed_units"));
                return Step::Prune;
            }
            Step::Go
        },
        &mut |hist, msg| sink.push(Violation::new("C04", spec, "panicked", "f64", hist, msg)),
    );
}

/// Conditioning of Alma's running weighted sums on a constant stream: once the window has slid,
/// every held sample carries w(N-1); when a sample with a larger weight w_max has been evicted,
/// its rounding residue (eps * w_max * |c|) is seen relative to the remaining N * w(N-1).
fn alma_condition(spec: &Spec) -> f64 {
    if !matches!(spec.kind, Kind::Alma | Kind::AlmaCustom) {
        return 1.0;
    }
    let (sg, of) = alma_params(spec);
    let n = spec.n;
    let w: Vec<f64> = (0..n).map(|k| refs::alma_weight::<f64>(k, n, sg, of)).collect();
    let wmax = w.iter().fold(0.0f64, |m, x| m.max(*x));
    let wmin_sum = w.iter().fold(f64::MAX, |m, x| m.min(*x)) * n as f64;
    (wmax / wmin_sum).max(1.0)
}

fn constant_streams<T: Scalar>(spec: &Spec, st: &mut Stats, sink: &Sink) {
    let n = spec.n;
    let cond = alma_condition(spec);
    let mut cs: Vec<f64> = Z5.to_vec();
    cs.extend(D4);
    cs.extend(F6);
    for c in cs {
        T::reset_arena();
        let len = 3 * n + 5;
        let hist = vec![c; len];
        let r = guard(|| {
            let mut v = build::<T>(spec);
            for i in 0..len {
                v.update(T::of(c));
                st.transitions += 1;
                if let Some(o) = v.last() {
                    st.oracle_evals += 1;
                    let ok = if T::EXACT {
                        o == T::of(c)
                    } else {
                        (o.f() - T::of(c).f()).abs() <= (4 * n + 8) as f64 * T::EPS * c.abs() * cond
                    };
                    if !ok {
                        return Some((i, o));
                    }
                }
            }
            None
        });
        st.states += len as u64;
        st.traces += 1;
        match r {
            Ok(Some((i, o))) => sink.push(Violation::new("C04", spec, "constant", T::NAME, &hist[..=i], format!("constant input {} reported as {}", c, show(Some(o))))),
            Ok(None) => {}
            Err(m) => sink.push(Violation::new("C04", spec, "panicked", T::NAME, &hist, m)),
        }
    }
    st.configs += 1;
}

pub fn run(ctx: &Ctx) -> CheckOutput {
    let quick = ctx.tier == Tier::Quick;
    let mut jobs: Vec<Job> = vec![];
    for spec in specs(quick) {
        let depth = (2 * spec.n + 3).min(if quick { 6 } else { 8 });
        // developer aid: VERIF_C04_ONLY_CONSTANT=1 runs the constant-stream clause alone
        if std::env::var("VERIF_C04_ONLY_CONSTANT").is_err() {
            let spec = spec.clone();
            jobs.push(Box::new(move || {
                let mut st = Stats::default();
                let sink = Sink::new();
                check_tree::<Q>(&spec, &Z5, depth, &mut st, &sink);
                JobOut { stats: st, viols: sink.take(), samples: vec![json!({"explorer":"TREE","scalar":"Q","view":spec.name(),"alphabet":Z5,"depth":depth,"lockstep":"base + 4 affine images + 2 perturbed twins per position"})] }
            }));
        }
        let spec = spec.clone();
        jobs.push(Box::new(move || {
            let mut st = Stats::default();
            let sink = Sink::new();
            constant_streams::<Q>(&spec, &mut st, &sink);
            constant_streams::<f64>(&spec, &mut st, &sink);
            long_definition(&spec, if quick { 300 } else { 1200 }, &mut st, &sink);
            JobOut { stats: st, viols: sink.take(), samples: vec![] }
        }));
    }
    // scale families: long run, wide window, huge window (only where an update costs O(1))
    for base in [Spec::un(Kind::Sma, 0, Spec::echo()), Spec::un(Kind::Ema, 0, Spec::echo()), Spec::unp(Kind::EmaAlpha, 0, vec![0.5], Spec::echo()), Spec::un(Kind::Alma, 0, Spec::echo()), Spec::unp(Kind::AlmaCustom, 0, vec![4.0, 0.5], Spec::echo())] {
        let cheap = !matches!(base.kind, Kind::Alma | Kind::AlmaCustom);
        for (label, n, len, at) in scale_families(&|n| n, quick, cheap, false) {
            let spec = Spec { n, ..base.clone() };
            jobs.push(Box::new(move || {
                let mut st = Stats::default();
                let sink = Sink::new();
                scale_definition(&spec, len, &at, &mut st, &sink);
                JobOut { stats: st, viols: sink.take(), samples: vec![json!({"explorer":"LONG (sparse oracle)","scalar":"f64","view":spec.name(),"family":label,"steps":len,"judged_steps":at.len(),"drivers":4})] }
            }));
        }
    }
    for spec in [Spec::un(Kind::Ema, 1, Spec::echo()), Spec::unp(Kind::EmaAlpha, 3, vec![4.0], Spec::echo()), Spec::unp(Kind::EmaAlpha, 1, vec![2.0], Spec::echo())] {
        let d = if quick { 5 } else { 7 };
        jobs.push(Box::new(move || {
            let mut st = Stats::default();
            let sink = Sink::new();
            ema_unit_weight(&spec, d, &mut st, &sink);
            JobOut { stats: st, viols: sink.take(), samples: vec![json!({"explorer":"TREE","scalar":"f64","view":spec.name(),"alphabet":"0, +-1, +-2^-70, 3*2^-70","depth":d,"clause":"weight 1 => identity, bit for bit"})] }
        }));
    }
    let o = run_jobs(jobs, ctx.seed);
    CheckOutput {
        stats: o.stats,
        violations: o.viols,
        samples: o.samples,
        rule: "Sma, Ema (default and with_alpha 1, 0.5), Alma (default, (4,0.5), (2,1.0)) x N x TREE over Z5 at Q with lockstep affine images and per-position perturbed twins; interval, definition, affine, monotone at every node; constant streams over Z5+D4+F6 at Q and f64".into(),
        assumptions: vec!["Alma: weights indexed by insertion count (the crate's convention, memory 2N as C03 states) or by window position are both accepted".into()],
        exhaustive: true,
        bounds: json!({"N": if quick {"1..=4"} else {"1..=6"}}),
    }
}
