//! C05 — RSI family equals gains/losses over the N most recent changes.

use super::common::*;
use crate::alpha::*;
use crate::explore::{run_jobs, tree, Job, JobOut, Step};
use crate::q::Q;
use crate::refs;
use crate::report::{CheckOutput, Sink, Stats, Violation};
use crate::scalar::Scalar;
use crate::spec::{build, Dyn, Kind, Spec};
use crate::{Ctx, Tier};
use serde_json::json;
use sliding_features::View;

pub fn oracle<T: Scalar>(kind: Kind, n: usize, h: &[T], hf: &[f64], v: &Dyn<T>, out: &mut Vec<Cmp<T>>) {
    let got = v.last();
    let w = refs::window(h, n);
    let (g, l) = refs::gains_losses(h, n);
    let flat = g + l == T::zero();
    // a value larger than everything now in the (N+1)-window has left it
    let k = (n + 1).min(h.len());
    let left_big = h.len() > k && max_abs(&hf[..hf.len() - k]) > max_abs(&hf[hf.len() - k..]);
    let inc = w.len() == n && n >= 2 && refs::strictly_increasing(w);
    let dec = w.len() == n && n >= 2 && refs::strictly_decreasing(w);
    match kind {
        Kind::Rsi => {
            let want = refs::rsi(h, n);
            out.push(
                Cmp::new("rsi", got, want, 1e-9 * 100.0)
                    .tag_if(flat, "window_flat")
                    .tag_if(left_big, "larger_value_left_window"),
            );
            // literal corollaries of the statement. The change of the oldest
            // window value against its predecessor is one of the N changes.
            if h.len() > n && refs::strictly_increasing(refs::window(h, n + 1)) && inc {
                out.push(Cmp::new("rising->100", got, Some(T::of(100.0)), 1e-9 * 100.0));
            }
            if h.len() > n && refs::strictly_decreasing(refs::window(h, n + 1)) && dec {
                out.push(Cmp::new("falling->0", got, Some(T::zero()), 1e-9 * 100.0));
            }
        }
        Kind::MyRsi => {
            let want = refs::my_rsi(h, n);
            out.push(
                Cmp::new("myrsi", got, want, 1e-9)
                    .tag_if(flat, "window_flat")
                    .tag_if(left_big, "larger_value_left_window"),
            );
            if h.len() > n && refs::strictly_increasing(refs::window(h, n + 1)) && inc {
                out.push(Cmp::new("rising->+1", got, Some(T::one()), 1e-9));
            }
            if h.len() > n && refs::strictly_decreasing(refs::window(h, n + 1)) && dec {
                out.push(Cmp::new("falling->-1", got, Some(-T::one()), 1e-9));
            }
        }
        _ => unreachable!(),
    }
}

/// lockstep pair x / -x: Rsi' = 100 - Rsi, MyRSI' = -MyRSI on non-flat windows
fn negation_tree<T: Scalar>(kind: Kind, n: usize, alpha: &[f64], depth: usize, st: &mut Stats, sink: &Sink) {
    let spec = Spec::un(kind, n, Spec::echo());
    #[derive(Clone)]
    struct S<T: Scalar> {
        a: Dyn<T>,
        b: Dyn<T>,
        tainted: bool,
    }
    if build_or_report::<T>("C05", &spec, sink).is_none() {
        return;
    }
    let root = S { a: build::<T>(&spec), b: build::<T>(&spec), tainted: false };
    st.configs += 1;
    tree::<T, S<T>>(
        &root,
        alpha,
        depth,
        st,
        &mut |s, hist, st| {
            let x = T::of(*hist.last().unwrap());
            s.a.update(x);
            s.b.update(-x);
            st.transitions += 2;
            let ht: Vec<T> = to_t::<T>(hist);
            let (g, l) = refs::gains_losses(&ht, n);
            if g + l == T::zero() {
                return Step::Go; // flat window: excluded by the statement
            }
            let (a, b) = (s.a.last(), s.b.last());
            st.oracle_evals += 1;
            let want = match kind {
                Kind::Rsi => a.map(|v| T::of(100.0) - v),
                _ => a.map(|v| -v),
            };
            let tol = if kind == Kind::Rsi { 1e-7 } else { 1e-9 };
            if !agrees(b, want, tol, s.tainted) {
                sink.push(Violation::new(
                    "C05",
                    &spec,
                    "negation",
                    T::NAME,
                    hist,
                    format!("view(-x) = {} but the mirror of view(x) = {} is {}", show(b), show(a), show(want)),
                ));
                return Step::Prune;
            }
            Step::Go
        },
        &mut |hist, msg| sink.push(Violation::new("C05", &spec, "panicked", T::NAME, hist, msg)),
    );
}

pub fn run(ctx: &Ctx) -> CheckOutput {
    let quick = ctx.tier == Tier::Quick;
    let n_max = if quick { 5 } else { 10 };
    let cap = if quick { 150_000 } else { 1_000_000 };
    let mut jobs: Vec<Job> = vec![];
    for kind in [Kind::Rsi, Kind::MyRsi] {
        for n in 1..=n_max {
            let spec = Spec::un(kind, n, Spec::echo());
            for (alpha, depth) in [
                (Z3.to_vec(), (n + 5).min(if quick { 9 } else { 12 })),
                (Z5.to_vec(), (n + 3).min(if quick { 7 } else { 8 })),
            ] {
                {
                    let (spec, alpha) = (spec.clone(), alpha.clone());
                    jobs.push(Box::new(move || {
                        let mut st = Stats::default();
                        let sink = Sink::new();
                        ref_tree::<Q>("C05", &spec, &alpha, depth, &mut st, &sink, &|h, hf, v, out| {
                            oracle::<Q>(kind, n, h, hf, v, out)
                        });
                        JobOut { stats: st, viols: sink.take(), samples: vec![json!({"explorer":"TREE","scalar":"Q","view":spec.name(),"alphabet":alpha,"depth":depth})] }
                    }));
                }
                let alpha2 = alpha.clone();
                jobs.push(Box::new(move || {
                    let mut st = Stats::default();
                    let sink = Sink::new();
                    negation_tree::<Q>(kind, n, &alpha2, depth.min(8), &mut st, &sink);
                    JobOut { stats: st, viols: sink.take(), samples: vec![] }
                }));
            }
            if n <= 5 {
                let spec = spec.clone();
                jobs.push(Box::new(move || {
                    let mut st = Stats::default();
                    let sink = Sink::new();
                    ref_tree::<f32>("C05", &spec, &Z5, (n + 3).min(6), &mut st, &sink, &|h, hf, v, out| oracle::<f32>(kind, n, h, hf, v, out));
                    JobOut { stats: st, viols: sink.take(), samples: vec![] }
                }));
            }
            for alpha in [Z3.to_vec(), Z5.to_vec()] {
                let spec = spec.clone();
                jobs.push(Box::new(move || {
                    let mut st = Stats::default();
                    let sink = Sink::new();
                    let closed = ref_closure::<f64>("C05", &spec, &alpha, n + 1, cap, 64, &mut st, &sink, &|h, hf, v, out| {
                        oracle::<f64>(kind, n, h, hf, v, out)
                    });
                    JobOut { stats: st, viols: sink.take(), samples: vec![json!({"explorer":"CLOSURE","scalar":"f64","view":spec.name(),"alphabet":alpha,"closed":closed})] }
                }));
            }
        }
    }
    for kind in [Kind::Rsi, Kind::MyRsi] {
        for n in if quick { vec![2usize, 3, 5, 8, 9, 13, 17, 24] } else { (1..=18).chain([20, 24, 33, 40]).collect() } {
            let spec = Spec::un(kind, n, Spec::echo());
            let phases = if quick { 3 } else { 4 };
            jobs.push(Box::new(move || {
                let mut st = Stats::default();
                let sink = Sink::new();
                let d = phase_drivers(n, phases);
                ref_drivers::<f64>("C05", &spec, &d, &mut st, &sink, &|h, hf, v, out| oracle::<f64>(kind, n, h, hf, v, out));
                if n <= 9 {
                    ref_drivers::<Q>("C05", &spec, &phase_drivers(n, 2), &mut st, &sink, &|h, hf, v, out| oracle::<Q>(kind, n, h, hf, v, out));
                }
                JobOut { stats: st, viols: sink.take(), samples: vec![json!({"explorer":"LONG","view":spec.name(),"driver":format!("every sequence of <= {} phases from a menu of 8", phases)})] }
            }));
        }
    }
    // a spike of 1e15..1e17 before ordinary values: G and L are sums over the window only
    for kind in [Kind::Rsi, Kind::MyRsi] {
        for n in [3usize, 8] {
            let spec = Spec::un(kind, n, Spec::echo());
            jobs.push(Box::new(move || {
                let mut st = Stats::default();
                let sink = Sink::new();
                let mut d: Vec<Vec<f64>> = vec![];
                for p in [vec![1e17], vec![0.0, 1e17, 0.0], vec![-1e15, 1e15, 5.0]] {
                    for tail in phase_drivers(n, 2) {
                        let mut h = p.clone();
                        // flush the spike out of the (N+1)-window before the oracle is consulted
                        h.extend(std::iter::repeat(1.0).take(0));
                        h.extend(tail);
                        d.push(h);
                    }
                }
                ref_drivers::<f64>("C05", &spec, &d, &mut st, &sink, &|h, hf, v, out| {
                    // judge only steps at which the spike has left the (N+1)-window
                    if hf.len() > n + 4 && max_abs(&hf[hf.len() - (n + 1)..]) < 1e6 {
                        let mut o = vec![];
                        oracle::<f64>(kind, n, h, hf, v, &mut o);
                        for mut c in o {
                            // the tolerance refers to the values in the window, not to the departed spike
                            c.tol = if kind == Kind::Rsi { 1e-7 } else { 1e-9 };
                            out.push(c);
                        }
                    }
                });
                JobOut { stats: st, viols: sink.take(), samples: vec![json!({"explorer":"LONG","view":spec.name(),"driver":"spike prefix (1e15..1e17) then every sequence of <= 2 phases"})] }
            }));
        }
    }
    for kind in [Kind::Rsi, Kind::MyRsi] {
        for n in [2usize, 5] {
            let spec = Spec::un(kind, n, Spec::echo());
            let len = if quick { 300 } else { 1200 };
            jobs.push(Box::new(move || {
                let mut st = Stats::default();
                let sink = Sink::new();
                ref_long_cycles::<f64>("C05", &spec, &Z5, 3, len, &mut st, &sink, &|h, hf, v, out| oracle::<f64>(kind, n, h, hf, v, out));
                JobOut { stats: st, viols: sink.take(), samples: vec![json!({"explorer":"LONG","scalar":"f64","view":spec.name(),"driver":"every Z5 cycle of period<=3","steps":len})] }
            }));
        }
    }
    for kind in [Kind::Rsi, Kind::MyRsi] {
        for n in if quick { vec![7usize, 9, 12] } else { vec![7, 8, 9, 11, 12, 16, 20] } {
            let spec = Spec::un(kind, n, Spec::echo());
            let depth = if quick { 5 } else { 7 };
            jobs.push(Box::new(move || {
                let mut st = Stats::default();
                let sink = Sink::new();
                ref_tree_from_bases::<Q>("C05", &spec, &bases(n), &Z3, depth, &mut st, &sink, &|h, hf, v, out| oracle::<Q>(kind, n, h, hf, v, out));
                ref_tree_from_bases::<f64>("C05", &spec, &bases(n), &Z5, depth, &mut st, &sink, &|h, hf, v, out| oracle::<f64>(kind, n, h, hf, v, out));
                JobOut { stats: st, viols: sink.take(), samples: vec![json!({"explorer":"TREE from base histories","view":spec.name(),"bases":3,"suffix_depth":depth})] }
            }));
        }
    }
    // scale families: a run past 2^16 updates, a window past 2^8
    for kind in [Kind::Rsi, Kind::MyRsi] {
        for (label, n, len, at) in scale_families(&|n| n + 1, quick, false, false) {
            let spec = Spec::un(kind, n, Spec::echo());
            jobs.push(Box::new(move || {
                let mut st = Stats::default();
                let sink = Sink::new();
                ref_drivers_sparse::<f64>("C05", &spec, &scale_drivers(len, n), &at, &mut st, &sink, &|h, hf, v, out| oracle::<f64>(kind, n, h, hf, v, out));
                JobOut { stats: st, viols: sink.take(), samples: vec![json!({"explorer":"LONG (sparse oracle)","scalar":"f64","view":spec.name(),"family":label,"steps":len,"judged_steps":at.len(),"drivers":4})] }
            }));
        }
    }
    let o = run_jobs(jobs, ctx.seed);
    CheckOutput {
        stats: o.stats,
        violations: o.viols,
        samples: o.samples,
        rule: "Rsi, MyRSI x every N x (TREE over Z3/Z5 at Q against the batch G/L definition; lockstep x/-x pair; CLOSURE at f64 with the last N+1 inputs in the key)".into(),
        assumptions: vec!["letters from Z3/Z5; exact equality at Q".into()],
        exhaustive: true,
        bounds: json!({"N": format!("1..={}", n_max), "closure_state_cap": cap}),
    }
}
