//! C13 — rolling statistics equal their batch definition over the whole history.

use super::common::*;
use crate::alpha::*;
use crate::explore::{cycles, guard, run_jobs, Job, JobOut};
use crate::q::Q;
use crate::refs;
use crate::report::{CheckOutput, Sink, Stats, Violation};
use crate::scalar::Scalar;
use crate::spec::{build, Dyn, Kind, Spec};
use crate::{Ctx, Tier};
use serde_json::json;
use sliding_features::View;

pub fn oracle<T: Scalar>(kind: Kind, h: &[T], hf: &[f64], v: &Dyn<T>, out: &mut Vec<Cmp<T>>) {
    let got = v.last();
    let m = max_abs(hf);
    match kind {
        Kind::WelfordRolling => {
            let (mean, var) = v.aux().expect("accessors");
            out.push(Cmp::new("mean()", Some(mean), Some(refs::mean(h)), 1e-9 * (1.0 + m)));
            let pv = refs::pop_var(h);
            // variance() is documented as the accessor of the same statistic
            out.push(Cmp::new("variance()", Some(var), Some(pv), 1e-9 * (1.0 + m * m)));
            out.push(Cmp::new("last()=population-std", got, Some(pv.sqrt()), 1e-7 * (1.0 + m)));
        }
        Kind::Drawdown => out.push(Cmp::new("max-drawdown", got, Some(refs::drawdown(h)), 1e-9)),
        Kind::LnReturn => out.push(Cmp::new("ln-return", got, refs::ln_return(h), 1e-9)),
        _ => unreachable!(),
    }
}

/// exact running sums in integers (letters have at most one decimal digit)
fn long_cycles(kind: Kind, period: usize, len: usize, st: &mut Stats, sink: &Sink) {
    let spec = crate::spec::mk(kind, 0, Spec::echo());
    let alpha = cat(&P4, &F4P);
    st.configs += 1;
    let only = LONG_PERIOD.with(|c| c.get());
    for cyc in cycles(&alpha, period) {
        let p = cyc.len();
        if only != 0 && p != only {
            continue;
        }
        let ints: Vec<i128> = cyc.iter().map(|x| (x * 10.0).round() as i128).collect();
        let mag = cyc.iter().fold(0.0f64, |m, x| m.max(x.abs()));
        let r = guard(|| {
            let mut v = build::<f64>(&spec);
            let (mut s1, mut s2): (i128, i128) = (0, 0);
            let (mut peak, mut dd) = (f64::MIN, 0.0f64);
            let mut prev = 0.0f64;
            for i in 0..len {
                let x = cyc[i % p];
                v.update(x);
                let got = v.last();
                let n = (i + 1) as i128;
                let (want, scale): (Option<f64>, f64) = match kind {
                    Kind::WelfordRolling => {
                        let xi = ints[i % p];
                        s1 += xi;
                        s2 += xi * xi;
                        let var = (n * s2 - s1 * s1) as f64 / (100.0 * (n * n) as f64);
                        let (mean, _) = v.aux().unwrap();
                        let mean_want = s1 as f64 / (10.0 * n as f64);
                        if (mean - mean_want).abs() > 1e-9 * mag {
                            return Some((i, format!("mean() = {:e} but the mean of the {} values so far is {:e}", mean, n, mean_want)));
                        }
                        (Some(var.max(0.0).sqrt()), mag)
                    }
                    Kind::Drawdown => {
                        if x > peak {
                            peak = x;
                        }
                        let d = (peak - x) / peak;
                        if d > dd {
                            dd = d;
                        }
                        (Some(dd), 1.0)
                    }
                    _ => {
                        let w = if i == 0 { None } else { Some((x / prev).ln()) };
                        prev = x;
                        (w, 10.0)
                    }
                };
                let ok = match (got, want) {
                    (None, None) => true,
                    // "without the error growing beyond rounding noise": Welford's update is accurate to
                    // ~1e-13 relative after 10^6 values; 1e-9 of the scale leaves four orders of room
                    (Some(g), Some(w)) => (g - w).abs() <= 1e-9 * scale,
                    _ => false,
                };
                if !ok {
                    return Some((i, format!("reports {:?} but the batch definition over the {} values so far gives {:?}", got, n, want)));
                }
            }
            None
        });
        st.transitions += len as u64;
        st.states += len as u64;
        st.oracle_evals += len as u64;
        st.traces += 1;
        match r {
            Ok(Some((i, d))) => {
                let h: Vec<f64> = (0..=i.min(4000)).map(|j| cyc[j % p]).collect();
                sink.push(Violation::new("C13", &spec, "long-run", "f64", &h, format!("at step {} of the cycle {:?} repeated: {}", i, cyc, d)));
                return;
            }
            Ok(None) => {}
            Err(m) => {
                sink.push(Violation::new("C13", &spec, "panicked", "f64", &cyc, m));
                return;
            }
        }
    }
}

/// WelfordRolling on streams whose level dwarfs their spread (2^40 + {0,1,3}, 1e10 + {0,1,3}):
/// a term that is below the resolution of the running mean must still reach the sum of squares.
/// Exact statistics from the integer offsets. At these ratios an incremental mean in f64 stagnates at
/// the resolution of the level (the unchanged code is off by up to 0.25 in the mean and 3.3% in the
/// standard deviation after 10^6 values at 2^40, measured), so no mean clause is imposed and the
/// standard deviation is only required to stay within 10% - a deviation that keeps growing with the
/// stream length (contributions dropped once they fall below the mean's resolution) still shows.
fn high_level_cycles(len: usize, st: &mut Stats, sink: &Sink) {
    let spec = crate::spec::mk(Kind::WelfordRolling, 0, Spec::echo());
    st.configs += 1;
    for level in [1099511627776.0f64, 1e10] {
        for cyc in cycles(&[0.0, 1.0, 3.0], 3) {
            let p = cyc.len();
            let spread = cyc.iter().fold(0.0f64, |m, x| m.max(*x)) - cyc.iter().fold(f64::MAX, |m, x| m.min(*x));
            let r = guard(|| {
                let mut v = build::<f64>(&spec);
                let (mut s1, mut s2): (i128, i128) = (0, 0);
                for i in 0..len {
                    let off = cyc[i % p];
                    v.update(level + off);
                    let n = (i + 1) as i128;
                    let o = off as i128;
                    s1 += o;
                    s2 += o * o;
                    let var = (n * s2 - s1 * s1) as f64 / ((n * n) as f64);
                    let std = var.max(0.0).sqrt();
                    let mean_want = level + s1 as f64 / n as f64;
                    let (mean, _) = v.aux().unwrap();
                    let slack = 64.0 * f64::EPSILON * level;
                    let _ = (mean, mean_want);
                    let got = v.last();
                    if !matches!(got, Some(g) if (g - std).abs() <= 0.1 * std.max(spread) + slack) {
                        return Some((i, format!("reports {:?} but the population standard deviation of the {} values so far is {:e}", got, n, std)));
                    }
                }
                None
            });
            st.transitions += len as u64;
            st.states += len as u64;
            st.oracle_evals += len as u64;
            st.traces += 1;
            if let Ok(Some((i, d))) = r {
                let h: Vec<f64> = (0..=i.min(6000)).map(|j| level + cyc[j % p]).collect();
                sink.push(Violation::new("C13", &spec, "long-run", "f64", &h, format!("level {:e} + cycle {:?} repeated, step {}: {}", level, cyc, i, d)).tag("level_dwarfs_spread"));
                return;
            }
        }
    }
}

/// f64, moves of one tick: every sequence up to `depth` over positive values that differ by relative
/// amounts between 2e-12 and 4e-9 (and one ordinary move). LnReturn and Drawdown are ratios of
/// consecutive values, so their natural scale here is the size of the move itself, not 1: the
/// comparison is to 1e-12 absolute plus 1e-9 of the exact answer (the f64 evaluation of
/// ln(x_t/x_(t-1)) is accurate to a few 1e-16).
fn ticks(kind: Kind, depth: usize, st: &mut Stats, sink: &Sink) {
    let spec = crate::spec::mk(kind, 0, Spec::echo());
    let alpha = [250.0, 250.000001, 249.999999, 250.0000000005, 100.0];
    let Some(root) = build_or_report::<f64>("C13", &spec, sink) else { return };
    st.configs += 1;
    crate::explore::tree::<f64, Dyn<f64>>(
        &root,
        &alpha,
        depth,
        st,
        &mut |v, hist, st| {
            v.update(*hist.last().unwrap());
            st.transitions += 1;
            let got = v.last();
            let want = match kind {
                Kind::LnReturn => refs::ln_return(hist),
                _ => Some(refs::drawdown(hist)),
            };
            st.oracle_evals += 1;
            st.out(got);
            let ok = match (got, want) {
                (None, None) => true,
                (Some(g), Some(w)) => g.is_finite() && (g - w).abs() <= 1e-12 + 1e-9 * w.abs(),
                _ => false,
            };
            if !ok {
                sink.push(Violation::new("C13", &spec, if kind == Kind::LnReturn { "ln-return" } else { "max-drawdown" }, "f64", hist, format!("moves of one tick: the view reports {:?} but the definition gives {:?}", got, want)).tag("tick_sized_moves"));
                return crate::explore::Step::Prune;
            }
            crate::explore::Step::Go
        },
        &mut |hist, msg| sink.push(Violation::new("C13", &spec, "panicked", "f64", hist, msg)),
    );
}

/// f32, streams longer than 2^24 values on which every partial sum is exactly representable: a
/// level L with one excursion pair (L+d, L-d) every P values. The exact mean is L whenever the pairs
/// are complete and the exact sum of squared deviations is 2 d^2 per pair, so the reference needs no
/// floating point. A count kept in the float type stops at 2^24; an accumulator that is fed
/// representable chunks does not. Judged at 2^24 - 1 and at the end: mean within 1e-4 L, standard
/// deviation within 1 %.
fn f32_past_2_24(len: usize, st: &mut Stats, sink: &Sink) {
    let spec = crate::spec::mk(Kind::WelfordRolling, 0, Spec::echo());
    for (level, d, period) in [(100.0f32, 64.0f32, 8192usize), (64.0, 32.0, 2048)] {
        st.configs += 1;
        let r = crate::explore::guard(|| {
            let mut v = build::<f32>(&spec);
            let mut pairs = 0u64;
            for i in 0..len {
                let x = match i % period {
                    0 => level + d,
                    1 => {
                        pairs += 1;
                        level - d
                    }
                    _ => level,
                };
                v.update(x);
                if i % period == 0 || !(i + 1 == (1 << 24) - 1 || i + 1 == len || i + 1 == (1 << 24) + (1 << 20)) {
                    continue;
                }
                let n = (i + 1) as f64;
                let want_std = (2.0 * (d as f64) * (d as f64) * pairs as f64 / n).sqrt();
                let (mean, _) = v.aux().expect("welford accessors");
                let got = v.last().map(|s| s as f64);
                let ok_mean = ((mean as f64) - level as f64).abs() <= 1e-4 * level as f64;
                let ok_std = matches!(got, Some(g) if (g - want_std).abs() <= 0.01 * want_std);
                if !ok_mean || !ok_std {
                    return Some((i, format!("after {} values: mean() = {:e} (exact {:e}), last() = {:?} (exact population standard deviation {:e})", i + 1, mean, level, got, want_std)));
                }
            }
            None
        });
        st.transitions += len as u64;
        st.states += len as u64;
        st.oracle_evals += 3;
        st.traces += 1;
        let shape: Vec<f64> = (0..12).map(|i| match i % period { 0 => (level + d) as f64, 1 => (level - d) as f64, _ => level as f64 }).collect();
        match r {
            Ok(Some((_, dsc))) => {
                sink.push(Violation::new("C13", &spec, "long-run", "f32", &shape, format!("level {} with one pair ({}, {}) every {} values (the listed operations show only the first 12): {}", level, level + d, level - d, period, dsc)).tag("f32_past_2^24"));
                return;
            }
            Ok(None) => {}
            Err(m) => {
                sink.push(Violation::new("C13", &spec, "panicked", "f32", &shape, m));
                return;
            }
        }
    }
}

pub fn run(ctx: &Ctx) -> CheckOutput {
    let quick = ctx.tier == Tier::Quick;
    let mut jobs: Vec<Job> = vec![];
    for kind in [Kind::WelfordRolling, Kind::Drawdown, Kind::LnReturn] {
        let spec = crate::spec::mk(kind, 0, Spec::echo());
        for (alpha, dq, df) in [(P4.to_vec(), if quick { 7 } else { 9 }, if quick { 8 } else { 9 }), (F4P.to_vec(), if quick { 6 } else { 7 }, 7)] {
            {
                let (spec, alpha) = (spec.clone(), alpha.clone());
                jobs.push(Box::new(move || {
                    let mut st = Stats::default();
                    let sink = Sink::new();
                    ref_tree::<Q>("C13", &spec, &alpha, dq, &mut st, &sink, &|h, hf, v, out| oracle::<Q>(kind, h, hf, v, out));
                    JobOut { stats: st, viols: sink.take(), samples: vec![json!({"explorer":"TREE","scalar":"Q","view":spec.name(),"alphabet":alpha,"depth":dq})] }
                }));
            }
            let (spec, alpha) = (spec.clone(), alpha.clone());
            jobs.push(Box::new(move || {
                let mut st = Stats::default();
                let sink = Sink::new();
                ref_tree::<f64>("C13", &spec, &alpha, df, &mut st, &sink, &|h, hf, v, out| oracle::<f64>(kind, h, hf, v, out));
                JobOut { stats: st, viols: sink.take(), samples: vec![json!({"explorer":"TREE","scalar":"f64","view":spec.name(),"alphabet":alpha,"depth":df})] }
            }));
        }
        if kind != Kind::WelfordRolling {
            let spec = spec.clone();
            jobs.push(Box::new(move || {
                let mut st = Stats::default();
                let sink = Sink::new();
                let closed = ref_closure::<f64>("C13", &spec, &P4, 2, if quick { 50_000 } else { 500_000 }, 64, &mut st, &sink, &|h, hf, v, out| oracle::<f64>(kind, h, hf, v, out));
                JobOut { stats: st, viols: sink.take(), samples: vec![json!({"explorer":"CLOSURE","scalar":"f64","view":spec.name(),"alphabet":P4,"closed":closed})] }
            }));
        }
        // long runs, split by period so that the pool stays busy
        let (pmax, len) = if quick { (3, 100_000) } else { (4, 1_000_000) };
        for p in 1..=pmax {
            jobs.push(Box::new(move || {
                let mut st = Stats::default();
                let sink = Sink::new();
                // cycles(.., p) enumerates periods 1..=p; keep exactly period p
                long_cycles_exact_period(kind, p, len, &mut st, &sink);
                JobOut { stats: st, viols: sink.take(), samples: vec![json!({"explorer":"LONG","scalar":"f64","view":format!("{:?}", kind),"driver":format!("every cycle of period {} over P4+F4P", p),"steps":len})] }
            }));
        }
    }
    jobs.push(Box::new(move || {
        let mut st = Stats::default();
        let sink = Sink::new();
        high_level_cycles(if quick { 100_000 } else { 1_000_000 }, &mut st, &sink);
        JobOut { stats: st, viols: sink.take(), samples: vec![json!({"explorer":"LONG","view":"WelfordRolling","driver":"level 2^40 and 1e10 plus every cycle over {0,1,3} of period<=3"})] }
    }));
    jobs.push(Box::new(move || {
        let mut st = Stats::default();
        let sink = Sink::new();
        let len = if quick { (1usize << 24) + (1 << 21) } else { (1usize << 25) + 2 };
        f32_past_2_24(len, &mut st, &sink);
        JobOut { stats: st, viols: sink.take(), samples: vec![json!({"explorer":"LONG","scalar":"f32","view":"WelfordRolling","driver":"level with one exactly representable excursion pair per period, two shapes","steps":len})] }
    }));
    for kind in [Kind::LnReturn, Kind::Drawdown] {
        let d = if quick { 5 } else { 7 };
        jobs.push(Box::new(move || {
            let mut st = Stats::default();
            let sink = Sink::new();
            ticks(kind, d, &mut st, &sink);
            JobOut { stats: st, viols: sink.take(), samples: vec![json!({"explorer":"TREE","scalar":"f64","view":format!("{:?}", kind),"alphabet":"250, 250.000001, 249.999999, 250.0000000005, 100","depth":d,"tolerance":"1e-12 + 1e-9*|exact|"})] }
        }));
    }
    let o = run_jobs(jobs, ctx.seed);
    CheckOutput {
        stats: o.stats,
        violations: o.viols,
        samples: o.samples,
        rule: "WelfordRolling (mean, variance, last), Drawdown, LnReturn: TREE over P4 and F4+ at Q and f64 against the batch definition over the whole history; CLOSURE over P4 for Drawdown and LnReturn; every cycle over P4+F4+ up to the stated period extended to 10^5 (quick) / 10^6 (thorough) values and compared at every step with exact integer running sums".into(),
        assumptions: vec!["long streams are periodic extensions of an exhaustively enumerated cycle set".into()],
        exhaustive: true,
        bounds: json!({"long_len": if quick {100_000} else {1_000_000}}),
    }
}

fn long_cycles_exact_period(kind: Kind, p: usize, len: usize, st: &mut Stats, sink: &Sink) {
    // reuse long_cycles but restrict to cycles of length exactly p
    let spec = crate::spec::mk(kind, 0, Spec::echo());
    let _ = spec;
    LONG_PERIOD.with(|c| c.set(p));
    long_cycles(kind, p, len, st, sink);
    LONG_PERIOD.with(|c| c.set(0));
}
thread_local! {
    static LONG_PERIOD: std::cell::Cell<usize> = const { std::cell::Cell::new(0) };
}
