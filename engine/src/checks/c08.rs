//! C08 — readiness: None during warm-up, then a finite value for ever.

use crate::catalogue::*;
use crate::explore::{closure, guard, run_jobs, sequences_upto, tree, Job, JobOut, Step};
use crate::report::{CheckOutput, Sink, Stats, Violation};
use crate::scalar::{opt_key, opt_same, Scalar};
use crate::spec::{build, entry, mk, unary_catalogue, Dyn, Kind, Spec, BINARY};
use crate::{Ctx, Tier};
use serde_json::json;
use sliding_features::View;

fn alphabet(spec: &Spec) -> Vec<f64> {
    if needs_positive(spec) {
        vec![1.0, 2.0, 3.0]
    } else {
        vec![0.0, 1.0, -1.0]
    }
}

/// documented warm-up of the outermost view: (None required while d < lo, Some required from d >= hi)
fn documented(spec: &Spec) -> Option<(usize, usize)> {
    use Kind::*;
    let n = spec.n;
    Some(match spec.kind {
        Sma | Ema | EmaAlpha | SuperSmoother | Rsi | MyRsi => (n, n),
        Roofing => (n + spec.m + 1, n + spec.m + 1),
        LnReturn => (2, 2),
        WelfordOnline | Vst | Vsct => (n.saturating_sub(1), n),
        Echo | Probe | Min | Max | Cumulative | Alma | AlmaCustom | CenterOfGravity | BinaryEntropy | GTE | LTE | Tanh | LaguerreFilter => (1, 1),
        _ => return None,
    })
}

/// how many updates until the whole program is certainly past its documented warm-up
fn horizon(spec: &Spec) -> usize {
    let own = documented(spec).map(|d| d.1).unwrap_or(spec.n.max(1));
    own + spec.ch.iter().take(spec.input_children()).map(horizon).max().unwrap_or(0)
}

#[derive(Clone)]
struct S<T: Scalar> {
    v: Dyn<T>,
    /// stand-alone copy of the outermost view's input program, to count delivered values
    inner: Option<Dyn<T>>,
    d: usize,
    was_some: bool,
}

fn root<T: Scalar>(spec: &Spec) -> Result<S<T>, String> {
    guard(|| {
        let inner = if spec.input_children() == 1 && !spec.ch.is_empty() { Some(build::<T>(&spec.ch[0])) } else { None };
        S { v: build::<T>(spec), inner, d: 0, was_some: false }
    })
}

fn node<T: Scalar>(spec: &Spec, s: &mut S<T>, hist: &[f64], st: &mut Stats, sink: &Sink) -> Step {
    let x = T::of(*hist.last().unwrap());
    s.v.update(x);
    st.transitions += 1;
    if let Some(i) = s.inner.as_mut() {
        i.update(x);
        if i.last().is_some() {
            s.d += 1;
        }
    } else {
        s.d += 1;
    }
    let got = s.v.last();
    st.oracle_evals += 1;
    st.out(got.map(|g| g.f()));
    let fail = |clause: &str, detail: String| {
        sink.push(Violation::new("C08", spec, clause, T::NAME, hist, detail));
        Step::Prune
    };
    match got {
        Some(v) => {
            if !v.is_finite() {
                return fail("finite", format!("reports the non-finite value {:?}", v.f()));
            }
            s.was_some = true;
        }
        None => {
            if s.was_some {
                return fail("never-reverts", "last() returned a value earlier and returns None now".into());
            }
        }
    }
    if let Some((lo, hi)) = documented(spec) {
        if got.is_some() && s.d < lo {
            return fail("warm-up", format!("reports {} after only {} delivered value(s); documented: nothing before {}", opt_key(got), s.d, lo));
        }
        if got.is_none() && s.d >= hi {
            return fail("warm-up", format!("still reports nothing after {} delivered value(s); documented: a value from {}", s.d, hi));
        }
    }
    Step::Go
}

fn check_tree<T: Scalar>(spec: &Spec, depth: usize, st: &mut Stats, sink: &Sink) {
    let alpha = alphabet(spec);
    let r = match root::<T>(spec) {
        Ok(r) => r,
        Err(_) => {
            st.skipped_configs += 1;
            return;
        }
    };
    st.configs += 1;
    // before the first update: a value may be reported only by views documented to need no input
    tree::<T, S<T>>(
        &r,
        &alpha,
        depth,
        st,
        &mut |s, hist, st| node(spec, s, hist, st, sink),
        &mut |hist, msg| sink.push(Violation::new("C08", spec, "panicked", T::NAME, hist, msg)),
    );
}

fn check_closure(spec: &Spec, cap: usize, st: &mut Stats, sink: &Sink) {
    let alpha = alphabet(spec);
    let r = match root::<f64>(spec) {
        Ok(r) => r,
        Err(_) => return,
    };
    st.configs += 1;
    // the automaton only distinguishes d below the documented warm-up
    let dcap = documented(spec).map(|d| d.1).unwrap_or(0) + 1;
    closure::<S<f64>>(
        r,
        &alpha,
        cap,
        60,
        st,
        &|s| format!("{:?}|{}|{}", s.v, s.d.min(dcap), s.was_some),
        &mut |s, hist, st| node(spec, s, hist, st, sink),
        &mut |hist, msg| sink.push(Violation::new("C08", spec, "panicked", "f64", hist, msg)),
    );
}

/// a wrapper whose inner view never delivers anything never changes its answer
fn never_delivered<T: Scalar>(spec: &Spec, depth: usize, st: &mut Stats, sink: &Sink) {
    let nspec = spec.with_leaf(&Spec::never());
    let r = match guard(|| build::<T>(&nspec)) {
        Ok(r) => r,
        Err(_) => return,
    };
    st.configs += 1;
    let first = match guard(|| r.last()) {
        Ok(f) => f,
        Err(m) => {
            sink.push(Violation::new("C08", &nspec, "panicked", T::NAME, &[], m));
            return;
        }
    };
    tree::<T, Dyn<T>>(
        &r,
        &[0.0, 1.0, -1.0],
        depth,
        st,
        &mut |v, hist, st| {
            v.update(T::of(*hist.last().unwrap()));
            st.transitions += 1;
            st.oracle_evals += 1;
            let l = v.last();
            if !opt_same(l, first) {
                sink.push(Violation::new("C08", &nspec, "never-delivered", T::NAME, hist, format!("the inner view delivered nothing, yet the answer changed from {} to {}", opt_key(first), opt_key(l))));
                return Step::Prune;
            }
            Step::Go
        },
        &mut |hist, msg| sink.push(Violation::new("C08", &nspec, "panicked", T::NAME, hist, msg)),
    );
}

/// long runs for the recursive views: Some and finite for 5000 steps
fn long_run<T: Scalar>(spec: &Spec, st: &mut Stats, sink: &Sink) {
    let prefixes = sequences_upto(&[0.0, 1.0, -1.0], 3);
    let tails: [&[f64]; 4] = [&[1.0, -1.0], &[1.0, 0.0, -1.0], &[0.0], &[0.7]];
    st.configs += 1;
    for p in &prefixes {
        for tail in tails {
            let len = 5000;
            let at = |i: usize| if i < p.len() { p[i] } else { tail[(i - p.len()) % tail.len()] };
            let r = guard(|| {
                let mut v = build::<T>(spec);
                let mut was = false;
                let doc = documented(spec);
                for i in 0..len {
                    v.update(T::of(at(i)));
                    // single views over Echo: the number of delivered values is the number of updates
                    if let (Some((lo, hi)), true) = (doc, spec.depth() <= 2) {
                        let l = v.last();
                        if l.is_some() && i + 1 < lo {
                            return Some((i, "warm-up", format!("reports a value after only {} delivered value(s); documented: nothing before {}", i + 1, lo)));
                        }
                        if l.is_none() && i + 1 >= hi {
                            return Some((i, "warm-up", format!("still reports nothing after {} delivered value(s); documented: a value from {}", i + 1, hi)));
                        }
                    }
                    match v.last() {
                        Some(x) if !x.is_finite() => return Some((i, "finite", format!("non-finite output {:?} at step {}", x.f(), i))),
                        Some(_) => was = true,
                        None if was => return Some((i, "never-reverts", format!("None at step {} after a value had been reported", i))),
                        None => {}
                    }
                }
                None
            });
            st.transitions += len as u64;
            st.states += len as u64;
            st.traces += 1;
            match r {
                Ok(Some((i, clause, detail))) => {
                    let h: Vec<f64> = (0..=i).map(at).collect();
                    sink.push(Violation::new("C08", spec, clause, T::NAME, &h, detail));
                    return;
                }
                Ok(None) => {}
                Err(m) => {
                    let h: Vec<f64> = (0..60.min(len)).map(at).collect();
                    sink.push(Violation::new("C08", spec, "panicked", T::NAME, &h, format!("{} (somewhere in a {}-step run starting with this history)", m, len)));
                    return;
                }
            }
        }
    }
}

/// one very long run per configuration (140 000 updates: twice past a 16-bit counter): once a value
/// has been reported, a finite value after every update
fn very_long_run<T: Scalar>(spec: &Spec, len: usize, st: &mut Stats, sink: &Sink) {
    if guard(|| build::<T>(spec)).is_err() {
        st.skipped_configs += 1; // the constructor defines the accepted domain
        return;
    }
    st.configs += 1;
    let pos = needs_positive(spec);
    let at = |i: usize| -> f64 {
        let v = [1.0, 0.0, -1.0, 0.5, -2.0, 3.0, 0.0][i % 7] + ((i / 7) % 3) as f64 * 0.25;
        if pos { v.abs() + 1.0 } else { v }
    };
    let r = guard(|| {
        let mut v = build::<T>(spec);
        let mut was = false;
        for i in 0..len {
            v.update(T::of(at(i)));
            match v.last() {
                Some(x) if !x.is_finite() => return Some((i, "finite", format!("non-finite output {:?} at update {}", x.f(), i + 1))),
                Some(_) => was = true,
                None if was => return Some((i, "never-reverts", format!("None at update {} after values had been reported", i + 1))),
                None => {}
            }
        }
        None
    });
    st.transitions += len as u64;
    st.states += len as u64;
    st.oracle_evals += len as u64;
    st.traces += 1;
    match r {
        Ok(Some((i, clause, d))) => {
            let h: Vec<f64> = (0..=i).map(at).collect();
            sink.push(Violation::new("C08", spec, clause, T::NAME, &h, d));
        }
        Ok(None) => {}
        Err(m) => {
            let h: Vec<f64> = (0..70).map(at).collect();
            sink.push(Violation::new("C08", spec, "panicked", T::NAME, &h, format!("{} (somewhere in a {}-update run that starts with this history)", m, len)));
        }
    }
}

pub fn run(ctx: &Ctx) -> CheckOutput {
    let quick = ctx.tier == Tier::Quick;
    let mut jobs: Vec<Job> = vec![];
    let cap_depth = if quick { 9 } else { 12 };
    // single views, all variants, N from the meaningful minimum
    for e in unary_catalogue() {
        let ns: Vec<usize> = if e.has_n { (e.min_n..=e.min_n.max(if quick { 4 } else { 7 })).collect() } else { vec![1] };
        for n in ns {
            for spec in variants(e.kind, n, &Spec::echo()) {
                let recursive = matches!(e.kind, Kind::Ema | Kind::EmaAlpha | Kind::LaguerreFilter | Kind::SuperSmoother | Kind::Roofing | Kind::CyberCycle | Kind::TrendFlex | Kind::ReFlex | Kind::LaguerreRsi | Kind::Eft);
                jobs.push(Box::new(move || {
                    let mut st = Stats::default();
                    let sink = Sink::new();
                    let depth = (horizon(&spec) + 3).min(cap_depth);
                    check_tree::<f64>(&spec, depth, &mut st, &sink);
                    check_closure(&spec, if quick { 5_000 } else { 100_000 }, &mut st, &sink);
                    never_delivered::<f64>(&spec, 4, &mut st, &sink);
                    if recursive {
                        long_run::<f64>(&spec, &mut st, &sink);
                        // the coarse scalar: delay lines and ladders become bit-identical within tens of
                        // updates instead of hundreds (readiness must not revert there either)
                        long_run::<crate::lo::Lo>(&spec, &mut st, &sink);
                    }
                    if !quick {
                        check_tree::<f32>(&spec, depth.min(8), &mut st, &sink);
                    }
                    JobOut { stats: st, viols: sink.take(), samples: vec![json!({"explorer":"TREE+CLOSURE","view":spec.name(),"depth":depth})] }
                }));
            }
        }
    }
    // larger N (long runs only): every view that has a window length, all variants
    let big_ns: Vec<usize> = if quick { vec![5, 7, 8, 12, 16, 20, 33] } else { (5..=40).chain([48, 64, 100]).collect() };
    for n in big_ns {
        let mut specs: Vec<Spec> = vec![];
        for e in unary_catalogue() {
            if e.has_n {
                specs.extend(variants(e.kind, n, &Spec::echo()));
            }
        }
        for m in [4usize, 7, 11] {
            specs.push(Spec::roofing(n, m, Spec::echo()));
        }
        for spec in specs {
            if needs_positive(&spec) {
                continue;
            }
            jobs.push(Box::new(move || {
                let mut st = Stats::default();
                let sink = Sink::new();
                long_run::<f64>(&spec, &mut st, &sink);
                JobOut { stats: st, viols: sink.take(), samples: vec![] }
            }));
        }
    }
    // very long runs (counters narrower than usize)
    for n in [2usize, 7] {
        for e in unary_catalogue() {
            if !e.has_n && n != 2 {
                continue;
            }
            for spec in variants(e.kind, n, &Spec::echo()) {
                jobs.push(Box::new(move || {
                    let mut st = Stats::default();
                    let sink = Sink::new();
                    very_long_run::<f64>(&spec, if quick { 140_000 } else { 600_000 }, &mut st, &sink);
                    JobOut { stats: st, viols: sink.take(), samples: vec![] }
                }));
            }
        }
    }
    // two-level chains, windows in {min, min+1}
    let chain_depth = if quick { 8 } else { 10 };
    for (a, b) in [(0usize, 0usize), (1, 0), (0, 1), (1, 1)] {
        for o in unary_catalogue() {
            jobs.push(Box::new(move || {
                let mut st = Stats::default();
                let sink = Sink::new();
                for i in unary_catalogue() {
                    if (a == 1 && !o.has_n) || (b == 1 && !i.has_n) {
                        continue;
                    }
                    let inner = mk(i.kind, entry(i.kind).min_n + b, Spec::echo());
                    let spec = mk(o.kind, entry(o.kind).min_n + a, inner);
                    if !domain_ok(&spec) {
                        continue;
                    }
                    let depth = (horizon(&spec) + 2).min(chain_depth);
                    check_tree::<f64>(&spec, depth, &mut st, &sink);
                }
                JobOut { stats: st, viols: sink.take(), samples: vec![json!({"explorer":"TREE","outer":format!("{:?}", o.kind),"inner":"every domain-compatible view","windows":"min+".to_string()+&a.to_string()+"/min+"+&b.to_string()})] }
            }));
        }
    }
    // combinators over a pool with different readiness; divisor never zero
    let pool = [
        Spec::echo(),
        Spec::constant(2.0),
        Spec::un(Kind::Sma, 2, Spec::echo()),
        Spec::un(Kind::Roc, 1, Spec::echo()),
        Spec::un(Kind::Cumulative, 2, Spec::echo()),
        Spec::un(Kind::Min, 2, Spec::echo()),
        Spec::un(Kind::Ema, 3, Spec::echo()),
        Spec::unp(Kind::GTE, 0, vec![1.0], Spec::echo()),
    ];
    for k in BINARY {
        for a in pool.clone() {
            for b in pool.clone() {
                if k == Kind::Divide && !never_zero(&b) {
                    continue;
                }
                let spec = Spec::bin(k, a.clone(), b);
                jobs.push(Box::new(move || {
                    let mut st = Stats::default();
                    let sink = Sink::new();
                    check_tree::<f64>(&spec, 6, &mut st, &sink);
                    JobOut { stats: st, viols: sink.take(), samples: vec![] }
                }));
            }
        }
    }
    let o = run_jobs(jobs, ctx.seed);
    CheckOutput {
        stats: o.stats,
        violations: o.viols,
        samples: o.samples,
        rule: "every view (all variants, N from its minimum to 4), every domain-compatible two-level chain with windows in {min, min+1}, combinators over an 8-view pool: TREE over Z3 (positive letters for positive-domain programs) to the documented warm-up + 3; CLOSURE per single view; each wrapper over a leaf that never delivers; 5000-step runs for the recursive views. Oracle: readiness automaton keyed on values delivered by the stand-alone inner view, never-reverts and finiteness at every node".into(),
        assumptions: vec!["in-domain input: positive letters for Drawdown/LnReturn and programs feeding them, divisor children that cannot output 0".into(), "a panic while computing a reported value is a violation (clause panicked)".into()],
        exhaustive: true,
        bounds: json!({"depth_cap": cap_depth, "chain_depth_cap": chain_depth}),
    }
}
