//! C07 — bounded indicators stay inside their documented range.

use crate::alpha::*;
use crate::explore::{closure, guard, run_jobs, tree, Job, JobOut, Step};
use crate::report::{CheckOutput, Sink, Stats, Violation};
use crate::spec::{build, Dyn, Kind, Spec};
use crate::{Ctx, Tier};
use serde_json::json;
use sliding_features::View;

const ULPS: f64 = 8.0;

/// (lo, hi) of the documented range; None = unbounded on that side
fn range(spec: &Spec) -> (Option<f64>, Option<f64>) {
    use Kind::*;
    let n = spec.n as f64;
    match spec.kind {
        Rsi => (Some(0.0), Some(100.0)),
        MyRsi | HLNormalizer | Cti | Net | Tanh | Pfe => (Some(-1.0), Some(1.0)),
        LaguerreRsi | BinaryEntropy => (Some(0.0), Some(1.0)),
        Eft => (Some(-(199.0f64.ln())), Some(199.0f64.ln())),
        WelfordOnline | WelfordRolling => (Some(0.0), None),
        Vsct => (Some(-(n - 1.0) / n.sqrt()), Some((n - 1.0) / n.sqrt())),
        GTE => (Some(spec.p[0]), None),
        LTE => (None, Some(spec.p[0])),
        Drawdown => (Some(0.0), Some(1.0)),
        CenterOfGravity => (Some(-(n - 1.0) / 2.0), Some((n - 1.0) / 2.0)),
        _ => (None, None),
    }
}

fn positive_only(spec: &Spec) -> bool {
    matches!(spec.kind, Kind::Drawdown | Kind::CenterOfGravity)
}

/// None if inside the range (up to ULPS ulps of the bound's magnitude)
fn out_of_range(spec: &Spec, out: f64, prev: Option<f64>) -> Option<String> {
    if out.is_nan() {
        return Some("output is NaN".into());
    }
    let (lo, hi) = range(spec);
    let mag = match (lo, hi) {
        (Some(l), Some(h)) => l.abs().max(h.abs()).max(h - l),
        (Some(l), None) => l.abs(),
        (None, Some(h)) => h.abs(),
        _ => 0.0,
    };
    // a statistic accumulated over N values carries O(N) roundings: 8 ulps up to N = 32, N/4 beyond
    let slack = ULPS.max(spec.n as f64 / 4.0) * f64::EPSILON * mag;
    if let Some(l) = lo {
        if out < l - slack {
            return Some(format!("{:e} is below the lower bound {:e} by {:e} ({:.1} ulps of the bound)", out, l, l - out, (l - out) / (f64::EPSILON * mag.max(f64::MIN_POSITIVE))));
        }
    }
    if let Some(h) = hi {
        if out > h + slack {
            return Some(format!("{:e} is above the upper bound {:e} by {:e} ({:.1} ulps of the bound)", out, h, out - h, (out - h) / (f64::EPSILON * mag.max(f64::MIN_POSITIVE))));
        }
    }
    if spec.kind == Kind::Drawdown {
        if out >= 1.0 {
            return Some(format!("drawdown {:e} is not below 1", out));
        }
        if let Some(p) = prev {
            if out < p {
                return Some(format!("drawdown decreased from {:e} to {:e}", p, out));
            }
        }
    }
    None
}

#[derive(Clone)]
struct S {
    v: Dyn<f64>,
    prev: Option<f64>,
    recent: Vec<f64>,
}

fn tags(spec: &Spec, recent: &[f64], hist: &[f64]) -> Vec<String> {
    let mut t = vec![];
    let change_based = matches!(spec.kind, Kind::Rsi | Kind::MyRsi | Kind::Roc);
    let k = (spec.n + change_based as usize).min(recent.len());
    let w = &recent[recent.len() - k..];
    if recent.len() >= k && k >= spec.n && w.iter().all(|x| *x == w[0]) {
        t.push("window_flat".to_string());
    }
    if hist.len() > k {
        let gone = hist[..hist.len() - k].iter().fold(0.0f64, |m, x| m.max(x.abs()));
        let inw = w.iter().fold(0.0f64, |m, x| m.max(x.abs()));
        if gone > inw {
            t.push("larger_value_left_window".to_string());
        }
    }
    t
}

thread_local! {
    /// a fact about the driver family currently running, attached to every violation it produces
    static DRIVER_TAG: std::cell::Cell<Option<&'static str>> = const { std::cell::Cell::new(None) };
}

/// one update + bound check; returns Prune on violation
fn step(spec: &Spec, s: &mut S, x: f64, hist: &[f64], st: &mut Stats, sink: &Sink) -> Step {
    s.v.update(x);
    s.recent.push(x);
    if s.recent.len() > spec.n + 2 {
        s.recent.remove(0);
    }
    st.transitions += 1;
    if let Some(o) = s.v.last() {
        st.oracle_evals += 1;
        st.out(Some(o));
        if let Some(why) = out_of_range(spec, o, s.prev) {
            let (lo, hi) = range(spec);
            let excess = lo.map(|l| l - o).unwrap_or(0.0).max(hi.map(|h| o - h).unwrap_or(0.0));
            let mag = lo.map(|l| l.abs()).unwrap_or(0.0).max(hi.map(|h| h.abs()).unwrap_or(0.0)).max(1e-300);
            let mut v = Violation::new("C07", spec, "range", "f64", hist, why).tags(&tags(spec, &s.recent, hist)).tag_if2(excess.is_finite() && excess <= 1e-9 * mag, "rounding_level_excess");
            if let Some(t) = DRIVER_TAG.with(|c| c.get()) {
                v = v.tag(t);
            }
            sink.push(v);
            return Step::Prune;
        }
        s.prev = Some(o);
    }
    Step::Go
}

fn tails(n: usize, positive: bool) -> Vec<(String, Vec<f64>)> {
    let len = n + 2;
    let mut t: Vec<(String, Vec<f64>)> = vec![];
    let flats: Vec<f64> = if positive { F4P.to_vec() } else { F6.to_vec() };
    for c in flats {
        t.push((format!("flat({})", c), vec![c; len]));
    }
    let base = 3.3;
    t.push(("rising".into(), (0..len).map(|i| base + 0.7 * i as f64).collect()));
    t.push(("falling".into(), (0..len).map(|i| if positive { 99.7 * 0.7f64.powi(i as i32) } else { base - 0.7 * i as f64 }).collect()));
    t.push(("step-up".into(), (0..len).map(|i| if i < len / 2 { 0.7 } else { 99.7 }).collect()));
    t.push(("step-down".into(), (0..len).map(|i| if i < len / 2 { 99.7 } else { 0.7 }).collect()));
    t.push(("linear".into(), (0..len).map(|i| 0.7 + 0.1 * i as f64).collect()));
    t.push(("linear-dyadic".into(), (0..len).map(|i| 0.5 + 0.25 * i as f64).collect()));
    t
}

fn adversarial(spec: &Spec, pdepth: usize, st: &mut Stats, sink: &Sink) {
    let positive = positive_only(spec);
    let mut alpha: Vec<f64> = if positive { F5P.to_vec() } else { F7.to_vec() };
    // "any dynamic range": two letters far above the rest (eight decades in all)
    alpha.extend([1e5, 1e8]);
    let tl = tails(spec.n.max(1), positive);
    let root = match guard(|| S { v: build::<f64>(spec), prev: None, recent: vec![] }) {
        Ok(r) => r,
        Err(_) => {
            st.skipped_configs += 1;
            return;
        }
    };
    st.configs += 1;
    let mut run_tails = |s: &S, hist: &[f64], st: &mut Stats| {
        for (_, tail) in &tl {
            let mut c = s.clone();
            let mut h = hist.to_vec();
            let r = guard(|| {
                for x in tail {
                    h.push(*x);
                    if step(spec, &mut c, *x, &h, st, sink) == Step::Prune {
                        break;
                    }
                }
            });
            st.traces += 1;
            if let Err(m) = r {
                sink.push(Violation::new("C07", spec, "panicked", "f64", &h, m).tags(&tags(spec, &c.recent, &h)));
            }
        }
    };
    run_tails(&root, &[], st);
    tree::<f64, S>(
        &root,
        &alpha,
        pdepth,
        st,
        &mut |s, hist, st| {
            let r = step(spec, s, *hist.last().unwrap(), hist, st, sink);
            if r == Step::Go {
                run_tails(s, hist, st);
            }
            r
        },
        &mut |hist, msg| sink.push(Violation::new("C07", spec, "panicked", "f64", hist, msg)),
    );
}

/// values one or two ulps apart: the worst conditioning a window can have
fn ulp_neighbours(spec: &Spec, depth: usize, st: &mut Stats, sink: &Sink) {
    let e = f64::EPSILON;
    let alpha = [1.0, 1.0 + e, 1.0 + 2.0 * e, 1.0 - e / 2.0];
    let root = match guard(|| S { v: build::<f64>(spec), prev: None, recent: vec![] }) {
        Ok(r) => r,
        Err(_) => return,
    };
    st.configs += 1;
    tree::<f64, S>(
        &root,
        &alpha,
        depth,
        st,
        &mut |s, hist, st| {
            DRIVER_TAG.with(|c| c.set(Some("values_one_ulp_apart")));
            let r = step(spec, s, *hist.last().unwrap(), hist, st, sink);
            DRIVER_TAG.with(|c| c.set(None));
            r
        },
        &mut |hist, msg| sink.push(Violation::new("C07", spec, "panicked", "f64", hist, msg).tag("values_one_ulp_apart")),
    );
    DRIVER_TAG.with(|c| c.set(None));
}

fn closed(spec: &Spec, cap: usize, st: &mut Stats, sink: &Sink) {
    let alpha: Vec<f64> = if positive_only(spec) { vec![1.0, 2.0, 3.0] } else { Z3.to_vec() };
    let root = match guard(|| S { v: build::<f64>(spec), prev: None, recent: vec![] }) {
        Ok(r) => r,
        Err(_) => return,
    };
    st.configs += 1;
    closure::<S>(
        root,
        &alpha,
        cap,
        60,
        st,
        &|s| format!("{:?}|{:?}", s.v, s.prev.map(|p| p.to_bits())),
        &mut |s, hist, st| step(spec, s, *hist.last().unwrap(), hist, st, sink),
        &mut |hist, msg| sink.push(Violation::new("C07", spec, "panicked", "f64", hist, msg)),
    );
}

/// Scale families (a run past 2^16 updates, a window past 2^8): the bound at every step of the four
/// integer-valued drivers of `scale_drivers` and of their images under x -> 0.7x + 0.1
/// (non-representable values); shifted by +20 for the views that take positive input only.
fn scale_runs(spec: &Spec, len: usize, st: &mut Stats, sink: &Sink) {
    let shift = if positive_only(spec) { 20.0 } else { 0.0 };
    let mut drivers: Vec<Vec<f64>> = vec![];
    for (_, d) in super::common::scale_drivers(len, spec.n.max(1)) {
        drivers.push(d.iter().map(|x| x + shift).collect());
        drivers.push(d.iter().map(|x| 0.7 * (x + shift) + 0.1).collect());
    }
    st.configs += 1;
    for h in drivers {
        let Ok(mut s) = guard(|| S { v: build::<f64>(spec), prev: None, recent: vec![] }) else {
            st.skipped_configs += 1;
            return;
        };
        let r = guard(|| {
            for i in 0..h.len() {
                if step(spec, &mut s, h[i], &h[..=i], st, sink) == Step::Prune {
                    return true;
                }
            }
            false
        });
        st.states += h.len() as u64;
        st.traces += 1;
        match r {
            Ok(false) => {}
            Ok(true) => return,
            Err(m) => {
                sink.push(Violation::new("C07", spec, "panicked", "f64", &h, m));
                return;
            }
        }
    }
}

/// Min <= Sma, Alma, newest value <= Max over the same window
fn relational(n: usize, pdepth: usize, st: &mut Stats, sink: &Sink) {
    #[derive(Clone)]
    struct R {
        min: Dyn<f64>,
        max: Dyn<f64>,
        sma: Dyn<f64>,
        alma: Dyn<f64>,
        recent: Vec<f64>,
    }
    for k in [Kind::Min, Kind::Max, Kind::Sma, Kind::Alma] {
        if let Err(m) = guard(|| build::<f64>(&Spec::un(k, n, Spec::echo()))) {
            sink.push(Violation::new("C07", &Spec::un(k, n, Spec::echo()), "panicked", "f64", &[], format!("the constructor panicked: {}", m)));
            return;
        }
    }
    let mk = |k: Kind| build::<f64>(&Spec::un(k, n, Spec::echo()));
    let root = R { min: mk(Kind::Min), max: mk(Kind::Max), sma: mk(Kind::Sma), alma: mk(Kind::Alma), recent: vec![] };
    let tl = tails(n, false);
    st.configs += 1;
    let stepr = |s: &mut R, x: f64, hist: &[f64], st: &mut Stats| -> Step {
        s.min.update(x);
        s.max.update(x);
        s.sma.update(x);
        s.alma.update(x);
        s.recent.push(x);
        if s.recent.len() > n + 2 {
            s.recent.remove(0);
        }
        st.transitions += 4;
        let (lo, hi) = (s.min.last().unwrap(), s.max.last().unwrap());
        let mut bad = false;
        for (name, o, kind) in [("Sma", s.sma.last(), Kind::Sma), ("Alma", s.alma.last(), Kind::Alma), ("newest value", Some(x), Kind::Echo)] {
            if let Some(o) = o {
                st.oracle_evals += 1;
                let slack_lo = ULPS * f64::EPSILON * lo.abs();
                let slack_hi = ULPS * f64::EPSILON * hi.abs();
                if o < lo - slack_lo || o > hi + slack_hi {
                    let spec = Spec::un(kind, n, Spec::echo());
                    let (excess, bound) = if o < lo { (lo - o, lo) } else { (o - hi, hi) };
                    let ulps = excess / (f64::EPSILON * bound.abs().max(f64::MIN_POSITIVE));
                    let seen = hist.iter().fold(0.0f64, |m, x| m.max(x.abs()));
                    let tg = tags(&spec, &s.recent, hist);
                    sink.push(
                        Violation::new("C07", &spec, "min<=avg<=max", "f64", hist, format!("{} = {:e} is outside [Min, Max] = [{:e}, {:e}] of the same window by {:e} = {:.1} ulps of the bound", name, o, lo, hi, excess, ulps))
                            .tags(&tg)
                            .tag_if2(excess <= 1e-9 * seen, "rounding_level_excess"),
                    );
                    bad = true;
                }
            }
        }
        if bad {
            return Step::Prune;
        }
        Step::Go
    };
    let mut run_tails = |s: &R, hist: &[f64], st: &mut Stats| {
        for (_, tail) in &tl {
            let mut c = s.clone();
            let mut h = hist.to_vec();
            for x in tail {
                h.push(*x);
                if stepr(&mut c, *x, &h, st) == Step::Prune {
                    break;
                }
            }
            st.traces += 1;
        }
    };
    tree::<f64, R>(
        &root,
        &F7,
        pdepth,
        st,
        &mut |s, hist, st| {
            let r = stepr(s, *hist.last().unwrap(), hist, st);
            if r == Step::Go {
                run_tails(s, hist, st);
            }
            r
        },
        &mut |hist, msg| sink.push(Violation::new("C07", &Spec::un(Kind::Sma, n, Spec::echo()), "panicked", "f64", hist, msg)),
    );
}

pub fn specs(n: usize) -> Vec<Spec> {
    use Kind::*;
    let e = Spec::echo;
    let mut v = vec![];
    for k in [Rsi, MyRsi, HLNormalizer, Cti, Net, LaguerreRsi, BinaryEntropy, WelfordOnline, Vsct, CenterOfGravity] {
        v.push(Spec::un(k, n, e()));
    }
    if n >= 3 {
        for ma in [Spec::un(Sma, 2, e()), Spec::un(Ema, 3, e()), Spec::un(Sma, 1, e())] {
            v.push(Spec::with_ma(Pfe, n, e(), ma));
        }
    }
    // the bound is stated for any smoothing view: include averages that overshoot their input
    for ma in [Spec::un(Ema, 2, e()), Spec::un(Sma, 3, e()), Spec::un(Ema, 1, e()), Spec::un(SuperSmoother, 2, e()), Spec::un(SuperSmoother, 5, e()), Spec::unp(LaguerreFilter, 0, vec![0.5], e()), e()] {
        v.push(Spec::with_ma(Eft, n, e(), ma));
    }
    v
}

pub fn specs_no_n() -> Vec<Spec> {
    use Kind::*;
    let e = Spec::echo;
    let mut v = vec![Spec::un(WelfordRolling, 0, e()), Spec::un(Drawdown, 0, e())];
    for child in [e(), Spec::un(Cumulative, 3, e()), Spec::un(Roc, 2, e())] {
        v.push(Spec::un(Tanh, 0, child));
    }
    for c in [0.5, -0.7, 0.0, 99.7] {
        for child in [e(), Spec::un(Sma, 2, e())] {
            v.push(Spec::unp(GTE, 0, vec![c], child.clone()));
            v.push(Spec::unp(LTE, 0, vec![c], child));
        }
    }
    v
}

pub fn run(ctx: &Ctx) -> CheckOutput {
    let quick = ctx.tier == Tier::Quick;
    let ns: Vec<usize> = if quick { vec![2, 3, 4, 5, 7, 8, 12] } else { vec![2, 3, 4, 5, 6, 7, 8, 9, 10, 12, 16, 24] };
    let pdepth = if quick { 4 } else { 5 };
    let cap = if quick { 20_000 } else { 500_000 };
    let mut jobs: Vec<Job> = vec![];
    let mut all: Vec<Spec> = specs_no_n();
    for n in &ns {
        all.extend(specs(*n));
    }
    for spec in all {
        jobs.push(Box::new(move || {
            let mut st = Stats::default();
            let sink = Sink::new();
            adversarial(&spec, pdepth, &mut st, &sink);
            closed(&spec, cap, &mut st, &sink);
            if spec.n <= 5 {
                ulp_neighbours(&spec, (spec.n + 3).min(if quick { 6 } else { 8 }), &mut st, &sink);
            }
            JobOut { stats: st, viols: sink.take(), samples: vec![json!({"view":spec.name(),"drivers":format!("every prefix in F7^<={} x 12 tails (flat x6, ramps, steps, linear) of length N+2; CLOSURE over Z3", pdepth)})] }
        }));
    }
    for n in ns.clone() {
        jobs.push(Box::new(move || {
            let mut st = Stats::default();
            let sink = Sink::new();
            relational(n, pdepth, &mut st, &sink);
            JobOut { stats: st, viols: sink.take(), samples: vec![json!({"clause":"Min <= Sma, Alma, newest <= Max","N":n})] }
        }));
    }
    // scale families: long run (N = 5, 66 000 updates) and wide window (N = 300; 260 for NET)
    // (a window of 2000: a product or a power taken over the whole window leaves the exponent range)
    for (label, n, len) in [("long run", 5usize, 66_000usize), ("wide window", 300, 1_300), ("very wide window", 2_000, 4_100)] {
        for spec in specs(n) {
            if n > 1_000 && matches!(spec.kind, Kind::Net | Kind::Pfe) {
                continue; // O(N^2) per update / range already a known finding
            }
            let spec = if spec.kind == Kind::Net && n > 260 { Spec { n: 260, ..spec } } else { spec };
            jobs.push(Box::new(move || {
                let mut st = Stats::default();
                let sink = Sink::new();
                scale_runs(&spec, len, &mut st, &sink);
                JobOut { stats: st, viols: sink.take(), samples: vec![json!({"explorer":"LONG","view":spec.name(),"family":label,"steps":len,"drivers":"4 integer-valued streams and their images under 0.7x+0.1, the bound at every step"})] }
            }));
        }
    }
    let o = run_jobs(jobs, ctx.seed);
    CheckOutput {
        stats: o.stats,
        violations: o.viols,
        samples: o.samples,
        rule: "every view of the statement x N: (a) CLOSURE over Z3; (b) every volatile prefix over F7 + {1e5, 1e8} (eight decades, both signs) up to the stated depth, each followed by 12 tails (six flat values, rising/falling ramps, step up/down, linear, dyadic-linear) of length N+2; the bound checked at every step with 8 ulps of slack; lockstep product Min/Max/Sma/Alma/newest".into(),
        assumptions: vec!["inputs are the F7 letters and the listed tails; positive letters only for Drawdown and CenterOfGravity".into()],
        exhaustive: true,
        bounds: json!({"N": ns, "prefix_depth": pdepth, "closure_cap": cap}),
    }
}
