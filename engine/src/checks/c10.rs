//! C10 — linear views obey superposition.

use super::common::*;
use crate::alpha::*;
use crate::explore::{cycles, guard, run_jobs, tree, Job, JobOut, Step};
use crate::q::Q;
use crate::report::{CheckOutput, Sink, Stats, Violation};
use crate::scalar::Scalar;
use crate::spec::{build, Dyn, Kind, Spec};
use crate::{Ctx, Tier};
use serde_json::json;
use sliding_features::View;

const AB: [(f64, f64); 5] = [(1.0, 1.0), (2.0, -1.0), (0.0, 1.0), (-1.5, 0.5), (1.0, -1.0)];

fn pair(letter: f64) -> (f64, f64) {
    let i = letter as usize;
    (Z3[i / 3], Z3[i % 3])
}

#[derive(Clone)]
struct S<T: Scalar> {
    x: Dyn<T>,
    y: Dyn<T>,
    z: Vec<Dyn<T>>,
    tainted: bool,
}

fn step<T: Scalar>(spec: &Spec, s: &mut S<T>, hist: &[f64], st: &mut Stats, sink: &Sink) -> Step {
    let c0 = T::inexact();
    let (xf, yf) = pair(*hist.last().unwrap());
    let (x, y) = (T::of(xf), T::of(yf));
    s.x.update(x);
    s.y.update(y);
    for (k, (a, b)) in AB.iter().enumerate() {
        s.z[k].update(T::of(*a) * x + T::of(*b) * y);
    }
    st.transitions += 2 + AB.len() as u64;
    if T::inexact() > c0 {
        s.tainted = true;
    }
    let (ox, oy) = (s.x.last(), s.y.last());
    st.out(ox.map(|v| v.f()));
    let pairs: Vec<(f64, f64)> = hist.iter().map(|l| pair(*l)).collect();
    for (k, (a, b)) in AB.iter().enumerate() {
        let oz = s.z[k].last();
        st.oracle_evals += 1;
        let want = match (ox, oy) {
            (Some(p), Some(q)) => Some(T::of(*a) * p + T::of(*b) * q),
            _ => None,
        };
        let scale = 1.0 + pairs.iter().fold(0.0f64, |m, p| m.max(p.0.abs()).max(p.1.abs())) * (a.abs() + b.abs());
        if ox.is_some() != oy.is_some() || !agrees(oz, want, 1e-9 * scale, s.tainted) {
            sink.push(Violation::new(
                "C10",
                spec,
                "superposition",
                T::NAME,
                hist,
                format!("streams (x,y) = {:?}: view({}x+{}y) = {} but {}view(x)+{}view(y) = {} (view(x) = {}, view(y) = {})", pairs, a, b, show(oz), a, b, show(want), show(ox), show(oy)),
            ));
            return Step::Prune;
        }
    }
    Step::Go
}

fn root<T: Scalar>(spec: &Spec) -> S<T> {
    let c0 = T::inexact();
    let s = S { x: build::<T>(spec), y: build::<T>(spec), z: AB.iter().map(|_| build::<T>(spec)).collect(), tainted: false };
    S { tainted: T::inexact() > c0, ..s }
}

fn check_tree<T: Scalar>(spec: &Spec, depth: usize, st: &mut Stats, sink: &Sink) {
    if build_or_report::<T>("C10", spec, sink).is_none() {
        return;
    }
    let letters: Vec<f64> = (0..9).map(|i| i as f64).collect();
    let r = root::<T>(spec);
    st.configs += 1;
    tree::<T, S<T>>(
        &r,
        &letters,
        depth,
        st,
        &mut |s, hist, st| step(spec, s, hist, st, sink),
        &mut |hist, msg| sink.push(Violation::new("C10", spec, "panicked", T::NAME, hist, msg)),
    );
}

fn check_cycles<T: Scalar>(spec: &Spec, period: usize, len: usize, st: &mut Stats, sink: &Sink) {
    if build_or_report::<T>("C10", spec, sink).is_none() {
        return;
    }
    let letters: Vec<f64> = (0..9).map(|i| i as f64).collect();
    st.configs += 1;
    for cyc in cycles(&letters, period) {
        T::reset_arena();
        let hist: Vec<f64> = (0..len).map(|i| cyc[i % cyc.len()]).collect();
        let mut s = root::<T>(spec);
        let mut bad = false;
        for i in 0..len {
            let r = guard(|| step(spec, &mut s, &hist[..=i], st, sink));
            st.states += 1;
            match r {
                Ok(Step::Go) => {}
                Ok(Step::Prune) => {
                    bad = true;
                    break;
                }
                Err(m) => {
                    sink.push(Violation::new("C10", spec, "panicked", T::NAME, &hist[..=i], m));
                    bad = true;
                    break;
                }
            }
        }
        st.traces += 1;
        if bad {
            return;
        }
    }
}

/// structured pairs of streams for windows a pair-letter tree cannot fill
fn structured_pairs<T: Scalar>(spec: &Spec, len: usize, st: &mut Stats, sink: &Sink) {
    if build_or_report::<T>("C10", spec, sink).is_none() {
        return;
    }
    st.configs += 1;
    let n = spec.n;
    let xs: Vec<Box<dyn Fn(usize) -> f64>> = vec![
        Box::new(|i| if i == 0 { 1.0 } else { 0.0 }),
        Box::new(move |i| if i == n / 2 { -1.0 } else { 0.0 }),
        Box::new(move |i| if i < n { 0.0 } else { 1.0 }),
        Box::new(|i| i as f64),
    ];
    let ys: Vec<Box<dyn Fn(usize) -> f64>> = vec![Box::new(|_| 1.0), Box::new(|i| if i % 2 == 0 { 1.0 } else { -1.0 }), Box::new(|_| 0.0)];
    for fx in &xs {
        for fy in &ys {
            T::reset_arena();
            let mut s = root::<T>(spec);
            // letters index pairs in Z3 x Z3; here the streams are free-form, so drive the instances directly
            for i in 0..len {
                let (xf, yf) = (fx(i), fy(i));
                let c0 = T::inexact();
                let (x, y) = (T::of(xf), T::of(yf));
                let r = guard(|| {
                    s.x.update(x);
                    s.y.update(y);
                    for (k, (a, b)) in AB.iter().enumerate() {
                        s.z[k].update(T::of(*a) * x + T::of(*b) * y);
                    }
                });
                st.transitions += 2 + AB.len() as u64;
                st.states += 1;
                let hist: Vec<f64> = (0..=i).map(|j| fx(j)).collect();
                if let Err(m) = r {
                    sink.push(Violation::new("C10", spec, "panicked", T::NAME, &hist, m));
                    return;
                }
                let (ox, oy) = (s.x.last(), s.y.last());
                if T::inexact() > c0 {
                    s.tainted = true;
                }
                for (k, (a, b)) in AB.iter().enumerate() {
                    let oz = s.z[k].last();
                    st.oracle_evals += 1;
                    let want = match (ox, oy) {
                        (Some(p), Some(q)) => Some(T::of(*a) * p + T::of(*b) * q),
                        _ => None,
                    };
                    if ox.is_some() != oy.is_some() || !agrees(oz, want, 1e-9 * (1.0 + len as f64), s.tainted) {
                        sink.push(Violation::new("C10", spec, "superposition", T::NAME, &hist, format!("x as listed, y = {:?}...: view({}x+{}y) = {} but {}view(x)+{}view(y) = {}", (0..4).map(|j| fy(j)).collect::<Vec<_>>(), a, b, show(oz), a, b, show(want))));
                        return;
                    }
                }
            }
            st.traces += 1;
        }
    }
}

/// Scale families at f64 (a run past 2^16 updates, a window past 2^8, a window past 2^16): pairs of
/// the integer-valued drivers of `scale_drivers`, the seven instances in lockstep, judged at every
/// step. Behaviour keyed on an update count or on the stored window length exceeding an integer
/// width (a data-dependent shortcut that fires only there) breaks superposition.
fn scale_pairs(spec: &Spec, len: usize, st: &mut Stats, sink: &Sink) {
    if build_or_report::<f64>("C10", spec, sink).is_none() {
        return;
    }
    st.configs += 1;
    let d = scale_drivers(len, spec.n.max(1));
    for (i, j) in [(0usize, 1usize), (1, 2), (2, 3), (3, 0)] {
        let (xs, ys) = (&d[i].1, &d[j].1);
        let m = max_abs(xs).max(max_abs(ys));
        let gain = if spec.kind == Kind::Cumulative { spec.n as f64 } else { 1.0 };
        let mut s = root::<f64>(spec);
        let started = std::time::Instant::now();
        for t in 0..len {
            if t % 4096 == 4095 && started.elapsed().as_secs() > SCALE_BUDGET_S {
                st.bump("scale_family_budget_exceeded", 1);
                return;
            }
            let (x, y) = (xs[t], ys[t]);
            let r = guard(|| {
                s.x.update(x);
                s.y.update(y);
                for (k, (a, b)) in AB.iter().enumerate() {
                    s.z[k].update(*a * x + *b * y);
                }
            });
            st.transitions += 2 + AB.len() as u64;
            if let Err(msg) = r {
                sink.push(Violation::new("C10", spec, "panicked", "f64", &xs[..=t], msg));
                return;
            }
            let (ox, oy) = (s.x.last(), s.y.last());
            for (k, (a, b)) in AB.iter().enumerate() {
                let oz = s.z[k].last();
                st.oracle_evals += 1;
                let want = match (ox, oy) {
                    (Some(p), Some(q)) => Some(*a * p + *b * q),
                    _ => None,
                };
                let tol = 1e-9 * (1.0 + m * gain * (a.abs() + b.abs()));
                let ok = ox.is_some() == oy.is_some()
                    && match (oz, want) {
                        (None, None) => true,
                        (Some(g), Some(w)) => g.is_finite() && (g - w).abs() <= tol,
                        _ => false,
                    };
                if !ok {
                    sink.push(Violation::new("C10", spec, "superposition", "f64", &xs[..=t], format!("x = '{}' as listed, y = '{}', after {} updates: view({}x+{}y) = {:?} but {}view(x)+{}view(y) = {:?}", d[i].0, d[j].0, t + 1, a, b, oz, a, b, want)));
                    return;
                }
            }
        }
        st.states += len as u64;
        st.traces += 1;
    }
}

/// constant-stream clauses
fn constants(spec: &Spec, st: &mut Stats, sink: &Sink) {
    st.configs += 1;
    let lowpass_exact = matches!(spec.kind, Kind::Sma | Kind::Ema | Kind::Alma | Kind::LaguerreFilter);
    let n = spec.n.max(1);
    for c in [1.0, -2.5, 0.1] {
        if lowpass_exact {
            Q::reset();
            let len = 2 * n + 6;
            let r = guard(|| {
                let mut v = build::<Q>(spec);
                for i in 0..len {
                    v.update(Q::of(c));
                    st.transitions += 1;
                    if let Some(o) = v.last() {
                        st.oracle_evals += 1;
                        if o != Q::of(c) {
                            return Some((i, o.key()));
                        }
                    }
                }
                None
            });
            st.states += len as u64;
            st.traces += 1;
            match r {
                Ok(Some((i, o))) => {
                    sink.push(Violation::new("C10", spec, "constant->constant", "Q", &vec![c; i + 1], format!("constant stream {} reported as {}", c, o)));
                    return;
                }
                Ok(None) => {}
                Err(m) => {
                    sink.push(Violation::new("C10", spec, "panicked", "Q", &vec![c; len], m));
                    return;
                }
            }
        } else {
            let target = if spec.kind == Kind::SuperSmoother { c } else { 0.0 };
            let len = 40 * n.max(spec.m) + 20;
            let r = guard(|| {
                let mut v = build::<f64>(spec);
                for _ in 0..len {
                    v.update(c);
                }
                st.transitions += len as u64;
                v.last()
            });
            st.states += len as u64;
            st.traces += 1;
            st.oracle_evals += 1;
            match r {
                Ok(Some(o)) if (o - target).abs() <= 1e-9 * c.abs() => {}
                Ok(o) => {
                    let h: Vec<f64> = vec![c; len];
                    sink.push(Violation::new("C10", spec, if target == 0.0 { "constant->0" } else { "constant->constant" }, "f64", &h, format!("after {} equal inputs {} the view reports {:?}; expected {} within 1e-9*|c|", len, c, o, target)).tag("constant_input"));
                    return;
                }
                Err(m) => {
                    sink.push(Violation::new("C10", spec, "panicked", "f64", &vec![c; 40], m));
                    return;
                }
            }
        }
    }
}

pub fn run(ctx: &Ctx) -> CheckOutput {
    let quick = ctx.tier == Tier::Quick;
    use Kind::*;
    let (n_tree, depth) = if quick { (3usize, 4usize) } else { (4, 5) };
    let mut tree_specs: Vec<Spec> = vec![];
    for n in 1..=n_tree {
        for k in [Sma, Ema, Alma, Cumulative, SuperSmoother] {
            tree_specs.push(Spec::un(k, n, Spec::echo()));
        }
        tree_specs.push(Spec::un(CyberCycle, n, Spec::echo()));
    }
    for g in [0.0, 0.5, 0.8] {
        tree_specs.push(Spec::unp(LaguerreFilter, 0, vec![g], Spec::echo()));
    }
    let mut jobs: Vec<Job> = vec![];
    // Roofing reports only after N+M+1 values: a pair-letter tree that deep is too large at Q,
    // so it gets an f64 tree (tolerance 1e-9*scale) and exact cycles below
    for (n, m) in [(2usize, 1usize), (2, 2), (3, 1)] {
        let spec = Spec::roofing(n, m, Spec::echo());
        let d = (n + m + 2).min(if quick { 5 } else { 6 });
        jobs.push(Box::new(move || {
            let mut st = Stats::default();
            let sink = Sink::new();
            check_tree::<f64>(&spec, d, &mut st, &sink);
            check_cycles::<Q>(&spec, 2, n + m + 6, &mut st, &sink);
            JobOut { stats: st, viols: sink.take(), samples: vec![json!({"explorer":"TREE","scalar":"f64","view":spec.name(),"letters":"pairs (x,y) in Z3 x Z3","depth":d})] }
        }));
    }
    for spec in tree_specs {
        let d = depth;
        jobs.push(Box::new(move || {
            let mut st = Stats::default();
            let sink = Sink::new();
            check_tree::<Q>(&spec, d, &mut st, &sink);
            JobOut { stats: st, viols: sink.take(), samples: vec![json!({"explorer":"TREE","scalar":"Q","view":spec.name(),"letters":"pairs (x,y) in Z3 x Z3","depth":d,"scalars":AB})] }
        }));
    }
    for n in [5usize, 8, 16] {
        let mut specs = vec![];
        for k in [Sma, Ema, Alma, Cumulative, SuperSmoother, CyberCycle] {
            specs.push(Spec::un(k, n, Spec::echo()));
        }
        specs.push(Spec::roofing(n, 3, Spec::echo()));
        for spec in specs {
            jobs.push(Box::new(move || {
                let mut st = Stats::default();
                let sink = Sink::new();
                let extra = if spec.kind == Roofing { spec.m + 2 } else { 0 };
                check_cycles::<Q>(&spec, if quick { 2 } else { 3 }, n + 6 + extra, &mut st, &sink);
                JobOut { stats: st, viols: sink.take(), samples: vec![json!({"explorer":"LONG","scalar":"Q","view":spec.name(),"driver":"every cycle of (x,y) letters","steps":n+6+extra})] }
            }));
        }
    }
    // CyberCycle buffers six values before it reports anything but 0: small windows by cycles too
    for n in [1usize, 2, 3, 4] {
        let spec = Spec::un(CyberCycle, n, Spec::echo());
        jobs.push(Box::new(move || {
            let mut st = Stats::default();
            let sink = Sink::new();
            check_cycles::<Q>(&spec, if quick { 2 } else { 3 }, 12, &mut st, &sink);
            JobOut { stats: st, viols: sink.take(), samples: vec![] }
        }));
    }
    // larger windows: structured streams (impulse, step, ramp against constant, alternating, zero)
    for n in [9usize, 12, 16] {
        for k in [Sma, Ema, Alma, Cumulative, SuperSmoother, CyberCycle] {
            let spec = Spec::un(k, n, Spec::echo());
            jobs.push(Box::new(move || {
                let mut st = Stats::default();
                let sink = Sink::new();
                structured_pairs::<Q>(&spec, 2 * n + 12, &mut st, &sink);
                JobOut { stats: st, viols: sink.take(), samples: vec![json!({"explorer":"LONG","scalar":"Q","view":spec.name(),"driver":"x in {impulse, step, ramp, late impulse} x y in {constant, alternating, zero}"})] }
            }));
        }
    }
    // scale families (f64): long run, wide window, huge window
    {
        let mut fam: Vec<(&'static str, Spec, usize)> = vec![];
        for k in [Sma, Ema, Alma, Cumulative, SuperSmoother, CyberCycle] {
            fam.push(("long run", Spec::un(k, if k == CyberCycle { 6 } else { 5 }, Spec::echo()), 66_000));
            fam.push(("wide window", Spec::un(k, 300, Spec::echo()), 620));
            // (Alma costs O(N) per update; the recursive filters keep no window, and with poles this
            // close to 1 their rounding noise gain (~N^2) exceeds any tolerance worth stating)
            if matches!(k, Sma | Ema | Cumulative) {
                fam.push(("huge window", Spec::un(k, 70_000, Spec::echo()), 140_010));
            }
        }
        fam.push(("long run", Spec::roofing(5, 3, Spec::echo()), 66_000));
        fam.push(("wide window", Spec::roofing(300, 260, Spec::echo()), 1_200));
        fam.push(("long run", Spec::unp(LaguerreFilter, 0, vec![0.5], Spec::echo()), 66_000));
        for (label, spec, len) in fam {
            jobs.push(Box::new(move || {
                let mut st = Stats::default();
                let sink = Sink::new();
                scale_pairs(&spec, len, &mut st, &sink);
                JobOut { stats: st, viols: sink.take(), samples: vec![json!({"explorer":"LONG","scalar":"f64","view":spec.name(),"family":label,"steps":len,"driver":"4 pairs of integer-valued streams, seven instances in lockstep, judged at every step"})] }
            }));
        }
    }
    // constant streams, N up to 64
    let n_list: Vec<usize> = if quick { vec![1, 2, 3, 4, 5, 6, 7, 8, 9, 10, 12, 16, 20, 32, 48, 64] } else { (1..=64).collect() };
    for n in n_list {
        let mut specs = vec![];
        for k in [Sma, Ema, Alma, SuperSmoother] {
            specs.push(Spec::un(k, n, Spec::echo()));
        }
        if n >= 2 {
            specs.push(Spec::roofing(n, 1, Spec::echo()));
            specs.push(Spec::roofing(n, 4, Spec::echo()));
        }
        specs.push(Spec::un(CyberCycle, n, Spec::echo()));
        if n == 1 {
            for g in [0.0, 0.5, 0.8, 0.95] {
                specs.push(Spec::unp(LaguerreFilter, 0, vec![g], Spec::echo()));
            }
        }
        jobs.push(Box::new(move || {
            let mut st = Stats::default();
            let sink = Sink::new();
            for spec in &specs {
                constants(spec, &mut st, &sink);
            }
            JobOut { stats: st, viols: sink.take(), samples: vec![] }
        }));
    }
    let o = run_jobs(jobs, ctx.seed);
    CheckOutput {
        stats: o.stats,
        violations: o.viols,
        samples: o.samples,
        rule: "Sma, Ema, Alma, Cumulative, LaguerreFilter, SuperSmoother, Roofing, CyberCycle at the exact rational scalar: TREE whose letters are pairs (x_t,y_t) in Z3xZ3; seven real instances in lockstep (x, y, and a*x+b*y for five (a,b)); exact equality out3 = a*out1+b*out2 at every node; larger N by every letter-cycle; constant streams for N up to 64".into(),
        assumptions: vec!["equalities are exact where no irrational coefficient is involved, 1e-9 relative otherwise (the coefficient is the same f64-rounded number on both sides)".into()],
        exhaustive: true,
        bounds: json!({"tree_N": n_tree, "depth": depth}),
    }
}
