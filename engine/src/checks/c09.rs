//! C09 — recursive filters are stable and have fading memory for every window length.

use crate::explore::{guard, run_jobs, sequences_upto, Job, JobOut};
use crate::report::{CheckOutput, Sink, Stats, Violation};
use crate::spec::{build, Kind, Spec};
use crate::{Ctx, Tier};
use serde_json::json;
use sliding_features::View;

/// (slowest pole radius per the documented equations, multiplicity, FIR memory to flush first)
fn dynamics(s: &Spec) -> (f64, u32, usize) {
    use Kind::*;
    let n = s.n.max(1) as f64;
    let own = match s.kind {
        Ema => (1.0 - 2.0 / (n + 1.0), 1, 0),
        EmaAlpha => ((1.0 - s.p[0] / (n + 1.0)).abs(), 1, 0),
        LaguerreFilter => (s.p[0].max(0.1), 4, 4),
        SuperSmoother => ((-4.4422 / n).exp(), 1, 2),
        Roofing => {
            let th = 4.4422 / n;
            let alpha = (th.cos() + th.sin() - 1.0) / th.cos();
            ((1.0 - alpha).abs().max((-4.4422 / s.m.max(1) as f64).exp()), 2, s.n + s.m + 4)
        }
        CyberCycle => ((n - 1.0) / (n + 1.0), 2, s.n.max(6) + 4),
        TrendFlex | ReFlex => ((-8.88442402435 / n).exp().max(0.96), 1, s.n + 2),
        LaguerreRsi => ((2.0 / (n + 1.0)).max(0.5), 4, 6),
        Eft => {
            let ma = &s.ch[1];
            let (p, _, w) = match ma.kind {
                Kind::Sma => (0.0, 1, ma.n),
                _ => dynamics(ma),
            };
            (p.max(0.5), 1, s.n + w + 2)
        }
        _ => (0.0, 1, s.n),
    };
    // a chain: the slowest member decides, FIR memories add up
    if let Some(inner) = s.ch.first() {
        if inner.kind != Echo {
            let (p, m, w) = dynamics(inner);
            return (own.0.max(p), own.1 + m, own.2 + w);
        }
    }
    own
}

/// absolute bound of the output for |x| <= xmax (None: value-like, judged by the generous sanity cap)
fn abs_cap(s: &Spec, xmax: f64) -> f64 {
    use Kind::*;
    match s.kind {
        TrendFlex | ReFlex => 5.0 * (1.0 + 1e-9),
        LaguerreRsi => 1.0 + 1e-12,
        Eft => 199.0f64.ln() * (1.0 + 1e-9),
        // value-like outputs: no documented bound independent of N (a high-pass start-up
        // transient scales with N); finiteness and "the bound has stopped growing" decide
        _ => f64::MAX * xmax.min(1.0),
    }
}

/// periodic tails; none is a pure Nyquist or pure DC signal (which the smoothers / high-passes
/// annihilate, leaving the normalised indicators with 0/0 rounding artefacts)
const TAILS: [&[f64]; 3] = [&[1.0, 1.0, -1.0, -1.0], &[1.0, 0.0, -1.0], &[-2.0, -1.0, 0.0, 1.0, 3.0]];

fn normalising(k: Kind) -> bool {
    matches!(k, Kind::TrendFlex | Kind::ReFlex | Kind::LaguerreRsi | Kind::Eft)
}

/// horizon long enough for the documented envelope to fall below 1e-14 of the largest difference
pub fn horizon(spec: &Spec, floor: usize) -> usize {
    horizon_for(spec, floor, 1e-14)
}
pub fn horizon_for(spec: &Spec, floor: usize, target: f64) -> usize {
    let (pole, mult, w) = dynamics(spec);
    let r = pole.sqrt().min(0.99999);
    let c = 1e3f64.powi(mult.min(4) as i32).min(1e9);
    let need = if r <= 0.0 { 0.0 } else { ((target / c).ln() / r.ln()).ceil() };
    (2 * (w + need as usize) + 200).max(floor).min(400_000)
}

fn run_one(spec: &Spec, prefix: &[f64], tail: &[f64], t: usize) -> Result<Vec<Option<f64>>, String> {
    guard(|| {
        let mut v = build::<f64>(spec);
        for x in prefix {
            v.update(*x);
        }
        let mut out = Vec::with_capacity(t);
        for k in 0..t {
            v.update(tail[k % tail.len()]);
            out.push(v.last());
        }
        out
    })
}

fn check(spec: &Spec, prefixes: &[Vec<f64>], t: usize, st: &mut Stats, sink: &Sink) {
    check_unit(spec, prefixes, t, 1.0, st, sink)
}

/// `unit` scales the tails only: with unit = 2^-70 the prefixes are in ordinary units and the common
/// tail is a moving signal some twenty decades smaller. A self-normalised indicator has no scale, so
/// it must follow that tail as it follows any other once the prefix has decayed below it (the horizon
/// is sized for that); an absolute threshold on a scale-free quantity freezes the output at whatever
/// the prefix left behind.
fn check_unit(spec: &Spec, prefixes: &[Vec<f64>], t: usize, unit: f64, st: &mut Stats, sink: &Sink) {
    st.configs += 1;
    let (pole, mult, w) = dynamics(spec);
    let r = pole.sqrt();
    let c = 1e3f64.powi(mult.min(4) as i32).min(1e9);
    let history = |p: &[f64], tail: &[f64], upto: usize| -> Vec<f64> {
        let mut h = p.to_vec();
        h.extend((0..upto.min(200)).map(|k| tail[k % tail.len()]));
        h
    };
    // besides the periodic tails, two constant tails (0 and 1) judged for finiteness and the documented
    // bound only, over at least 1400 steps: the output of a recursive view then decays through the
    // subnormal range to exactly zero, and whatever follows it must survive tiny and zero differences
    let const_tails: [&[f64]; 2] = [&[0.0], &[1.0]];
    let all_tails: Vec<(&[f64], bool)> = TAILS.iter().map(|t| (*t, false)).chain(const_tails.iter().filter(|_| unit == 1.0).map(|t| (*t, true))).collect();
    for (tail0, constant) in all_tails {
        let t = if constant { t.max(1400) } else { t };
        let scaled: Vec<f64> = tail0.iter().map(|x| x * unit).collect();
        let tail: &[f64] = &scaled;
        let xmax = tail0.iter().fold(1.0f64, |m, x| m.max(x.abs()));
        // A normalising view fed by an inner view whose output dies out on this tail divides
        // rounding residue by rounding residue (0/0 by construction): such (chain, tail) pairs
        // carry no meaning and are skipped, decided on the stand-alone inner view.
        // (such pairs are still held to finiteness and to the documented absolute bound: what the outer
        // view is handed there - differences and ranges that are tiny, subnormal or exactly zero - is
        // ordinary in-domain input)
        let mut degenerate = constant;
        if !constant && normalising(spec.kind) && spec.ch[0].kind != Kind::Echo {
            if let Ok(inner) = run_one(&spec.ch[0], &[], tail, t) {
                let lastq: Vec<f64> = inner[3 * t / 4..].iter().flatten().copied().collect();
                let (lo, hi) = lastq.iter().fold((f64::MAX, f64::MIN), |(l, h), x| (l.min(*x), h.max(*x)));
                if lastq.is_empty() || hi - lo < 1e-6 {
                    st.bump("degenerate_chain_tail_pairs_bounded_only", 1);
                    degenerate = true;
                }
            }
        }
        // (tiny unit: the reference stream starts in ordinary units too - a stream that is tiny throughout
        // would hide an output frozen from the very first step)
        let base_prefix: &[f64] = if unit == 1.0 { &[] } else { &[2.0, -1.0] };
        let base = match run_one(spec, base_prefix, tail, t) {
            Ok(b) => b,
            Err(m) => {
                sink.push(Violation::new("C09", spec, "panicked", "f64", &history(&[], tail, 60), format!("{} (in a {}-step run of this tail)", m, t)));
                return;
            }
        };
        for p in prefixes {
            let out = if p.is_empty() && unit == 1.0 {
                base.clone()
            } else {
                match run_one(spec, p, tail, t) {
                    Ok(o) => o,
                    Err(m) => {
                        sink.push(Violation::new("C09", spec, "panicked", "f64", &history(p, tail, 60), format!("{} (in a {}-step run of this prefix and tail)", m, t)));
                        return;
                    }
                }
            };
            st.transitions += (t + p.len()) as u64;
            st.states += t as u64;
            st.traces += 1;
            // (a) bounded, with a bound that has stopped growing
            let mut sup_q = 0.0f64;
            let mut sup = 0.0f64;
            for (k, o) in out.iter().enumerate() {
                if let Some(o) = o {
                    st.oracle_evals += 1;
                    if !o.is_finite() || o.abs() > abs_cap(spec, xmax.max(p.iter().fold(0.0f64, |m, x| m.max(x.abs())))) {
                        sink.push(Violation::new("C09", spec, "bounded", "f64", &history(p, tail, k + 1), format!("output {:e} at tail step {} (input bounded by {}); the documented bound is {:e}", o, k, xmax, abs_cap(spec, xmax))).tag(&format!("N={}", spec.n)));
                        return;
                    }
                    sup = sup.max(o.abs());
                    if k < t / 4 {
                        sup_q = sup;
                    }
                }
            }
            st.out(Some(sup));
            // (with a tiny unit the normaliser is still catching up over the first quarter)
            if unit == 1.0 && !degenerate && sup > (1.0 + 1e-6) * sup_q + 1e-12 {
                sink.push(Violation::new("C09", spec, "bound-grows-with-length", "f64", &history(p, tail, 200), format!("sup|out| over the first {} tail steps is {:e} but over {} steps it is {:e}: the bound grows with the stream length", t / 4, sup_q, t, sup)));
                return;
            }
            // (b) fading memory against the empty prefix
            if (p.is_empty() && unit == 1.0) || degenerate {
                continue;
            }
            // value-like outputs must agree to 1e-9 of the input scale; self-normalised
            // indicators divide by their own (possibly small) deviation, their floor is 1e-6
            let scale = if normalising(spec.kind) { 1e3 } else { xmax };
            let deltas: Vec<Option<f64>> = out.iter().zip(base.iter()).map(|(a, b)| a.zip(*b).map(|(a, b)| (a - b).abs())).collect();
            let dmax = deltas.iter().flatten().fold(0.0f64, |m, d| m.max(*d));
            if let Some(k) = (t / 2..t).find(|k| out[*k].is_some() != base[*k].is_some()) {
                sink.push(Violation::new("C09", spec, "fading-memory", "f64", &history(p, tail, 200), format!("streams with prefix {:?} and with prefix {:?} share the tail {:?}*; {} tail steps after they merged one reports {:?} and the other {:?}", p, base_prefix, tail, k, out[k], base[k])));
                return;
            }
            for (k, d) in deltas.iter().enumerate() {
                let Some(d) = d else { continue };
                st.oracle_evals += 1;
                let start = w + p.len();
                // (tiny unit: the difference of two ratios stays O(1) until the normaliser has decayed from
                // the prefix's scale to the tail's, so only agreement over the second half is required)
                let env = if k >= start && unit == 1.0 { c * dmax * r.powi((k - start) as i32) } else { f64::INFINITY };
                if *d > env + 1e-12 * scale || (k >= t / 2 && *d > 1e-9 * scale) {
                    sink.push(Violation::new(
                        "C09",
                        spec,
                        "fading-memory",
                        "f64",
                        &history(p, tail, 200),
                        format!(
                            "streams with prefix {:?} and with the reference prefix share the tail {:?}*; {} tail steps after they merged their outputs still differ by {:e} (largest difference {:e}; geometric envelope with rate sqrt(pole {:.6}) allows {:e}; {:e} required from step {})",
                            p, tail, k, d, dmax, pole, env, 1e-9 * scale, t / 2
                        ),
                    ));
                    return;
                }
            }
        }
    }
}

/// f32, value-like recursive views, constant tails: every ternary prefix up to `pdepth` followed by a
/// constant tail (0 and 1) must end where the empty prefix ends (the DC response), to the f32 rounding
/// floor, over the second half of the horizon. Exact ties between consecutive outputs - the states in
/// which a shortcut keyed on "nothing changed" fires - are rare in f64 and common in f32, and need
/// a run of equal inputs, which no periodic tail provides.
fn check_flat_f32(spec: &Spec, pdepth: usize, t: usize, st: &mut Stats, sink: &Sink) {
    use crate::scalar::Scalar;
    st.configs += 1;
    let run = |prefix: &[f64], c: f64| -> Result<Vec<Option<f64>>, String> {
        guard(|| {
            let mut v = build::<f32>(spec);
            for x in prefix {
                v.update(*x as f32);
            }
            let mut out = Vec::with_capacity(t);
            for _ in 0..t {
                v.update(c as f32);
                out.push(v.last().map(|o| o.f()));
            }
            out
        })
    };
    let prefixes = sequences_upto(&[0.0, 1.0, -1.0], pdepth);
    for c in [0.0f64, 1.0] {
        let Ok(base) = run(&[], c) else { return };
        for p in &prefixes {
            if p.is_empty() {
                continue;
            }
            let out = match run(p, c) {
                Ok(o) => o,
                Err(m) => {
                    let mut h = p.clone();
                    h.extend(std::iter::repeat(c).take(60));
                    sink.push(Violation::new("C09", spec, "panicked", "f32", &h, m));
                    return;
                }
            };
            st.transitions += (t + p.len()) as u64;
            st.states += t as u64;
            st.traces += 1;
            for k in t / 2..t {
                st.oracle_evals += 1;
                let ok = match (out[k], base[k]) {
                    (Some(a), Some(b)) => a.is_finite() && (a - b).abs() <= 2e-4,
                    (None, None) => true,
                    _ => false,
                };
                if !ok {
                    let mut h = p.clone();
                    h.extend(std::iter::repeat(c).take(200.min(k + 1)));
                    sink.push(Violation::new("C09", spec, "fading-memory", "f32", &h, format!("streams with prefix {:?} and with no prefix share the constant tail {}; {} tail steps after they merged one reports {:?} and the other {:?}", p, c, k, out[k], base[k])).tag(&format!("N={}", spec.n)));
                    return;
                }
            }
        }
    }
}

/// Coarse scalar (10-bit significand), value-like recursive views, zero tail: every ternary prefix up
/// to `pdepth` followed by zeros. With so few significand bits two consecutive outputs are
/// bit-identical at a turning point in a few per cent of the runs, so the enumeration reaches the
/// states in which a shortcut keyed on "the output did not change" fires. On a zero tail floating
/// point has no absolute rounding floor (errors scale with the values), so the unchanged recursion
/// decays geometrically whatever the precision: at the end of the horizon the output must be below
/// 1e-6 of the largest prefix value.
fn check_zero_tail_coarse(spec: &Spec, pdepth: usize, t: usize, st: &mut Stats, sink: &Sink) {
    use crate::lo::Lo;
    use crate::scalar::Scalar;
    st.configs += 1;
    let prefixes = sequences_upto(&[0.0, 1.0, -1.0], pdepth);
    for p in &prefixes {
        if p.iter().all(|x| *x == 0.0) {
            continue;
        }
        let r = guard(|| {
            let mut v = build::<Lo>(spec);
            for x in p {
                v.update(Lo::of(*x));
            }
            let mut last = None;
            let mut ties = 0u64;
            let mut prev: Option<f64> = None;
            for _ in 0..t {
                v.update(Lo::of(0.0));
                last = v.last().map(|o| o.f());
                if last.is_some() && last == prev && last != Some(0.0) {
                    ties += 1;
                }
                prev = last;
            }
            (last, ties)
        });
        st.transitions += (t + p.len()) as u64;
        st.states += t as u64;
        st.traces += 1;
        st.oracle_evals += 1;
        match r {
            Ok((last, ties)) => {
                st.bump("coarse_scalar_exact_ties_between_consecutive_outputs", ties);
                if !matches!(last, Some(o) if o.is_finite() && o.abs() <= 1e-6) {
                    let mut h = p.clone();
                    h.extend(std::iter::repeat(0.0).take(200));
                    sink.push(Violation::new("C09", spec, "fading-memory", Lo::NAME, &h, format!("after the prefix {:?} and {} zeros the view still reports {:?}: the prefix has not been forgotten", p, t, last)).tag(&format!("N={}", spec.n)));
                    return;
                }
            }
            Err(m) => {
                let mut h = p.clone();
                h.extend(std::iter::repeat(0.0).take(60));
                sink.push(Violation::new("C09", spec, "panicked", Lo::NAME, &h, m));
                return;
            }
        }
    }
}

/// (a') boundedness across quiet stretches: a lively stretch, L identical values, a lively stretch
/// again. The documented bound must hold at every step whatever L is (a normaliser that lags
/// behind its numerator gives a bound that grows with the length of the quiet stretch).
fn check_gaps(spec: &Spec, st: &mut Stats, sink: &Sink) {
    st.configs += 1;
    let n = spec.n.max(1);
    let lively = 3 * n + 24;
    for tail in TAILS {
        for gap in [64usize, 512, 3000] {
            for level in [0.0, 1.0, -2.0] {
                let total = lively + gap + lively;
                let at = |i: usize| -> f64 {
                    if i < lively {
                        tail[i % tail.len()]
                    } else if i < lively + gap {
                        level
                    } else {
                        tail[i % tail.len()]
                    }
                };
                let cap = abs_cap(spec, 3.0);
                let r = guard(|| {
                    let mut v = build::<f64>(spec);
                    for i in 0..total {
                        v.update(at(i));
                        if let Some(o) = v.last() {
                            if !o.is_finite() || o.abs() > cap {
                                return Some((i, o));
                            }
                        }
                    }
                    None
                });
                st.transitions += total as u64;
                st.states += total as u64;
                st.oracle_evals += total as u64;
                st.traces += 1;
                match r {
                    Ok(Some((i, o))) => {
                        let h: Vec<f64> = (0..=i).map(at).collect();
                        sink.push(Violation::new("C09", spec, "bounded", "f64", &h, format!("{} lively values, {} identical values {}, then lively again: output {:e} at step {}; the documented bound is {:e}", lively, gap, level, o, i, cap)));
                        return;
                    }
                    Ok(None) => {}
                    Err(m) => {
                        let h: Vec<f64> = (0..total.min(400)).map(at).collect();
                        sink.push(Violation::new("C09", spec, "panicked", "f64", &h, format!("{} (lively / {} identical values / lively)", m, gap)));
                        return;
                    }
                }
            }
        }
    }
}

/// (b') fading memory after a spike far above the scale of the tail: every trace of a value of
/// magnitude 1e12 must die out geometrically (an aggregate that is maintained by adding and
/// subtracting keeps the rounding residue of the spike for ever).
fn check_spikes(spec: &Spec, st: &mut Stats, sink: &Sink) {
    st.configs += 1;
    let t = horizon_for(spec, 1500, 1e-30);
    let prefixes: [&[f64]; 2] = [&[1e12], &[1.0, -1e12, 0.0, 1e12]];
    let floor = if normalising(spec.kind) { 1e-6 } else { 1e-9 * 3.0 };
    for tail in &TAILS[1..] {
        let base = match run_one(spec, &[], tail, t) {
            Ok(b) => b,
            Err(_) => return,
        };
        if normalising(spec.kind) && spec.ch[0].kind != Kind::Echo {
            continue;
        }
        for p in prefixes {
            let out = match run_one(spec, p, tail, t) {
                Ok(o) => o,
                Err(m) => {
                    sink.push(Violation::new("C09", spec, "panicked", "f64", p, format!("{} (spike prefix, then {:?}* for {} steps)", m, tail, t)));
                    return;
                }
            };
            st.transitions += t as u64;
            st.states += t as u64;
            st.traces += 1;
            for k in (3 * t / 4)..t {
                if let (Some(a), Some(b)) = (out[k], base[k]) {
                    st.oracle_evals += 1;
                    if !a.is_finite() || (a - b).abs() > floor {
                        let mut h = p.to_vec();
                        h.extend((0..300.min(k + 1)).map(|i| tail[i % tail.len()]));
                        sink.push(Violation::new("C09", spec, "fading-memory", "f64", &h, format!("streams with prefix {:?} and with no prefix share the tail {:?}*; {} steps after they merged the outputs are {:e} and {:e}: the spike is still remembered (floor {:e})", p, tail, k, a, b, floor)).tag("after_spike"));
                        return;
                    }
                }
            }
        }
    }
}

fn recursive_specs(n: usize, quick: bool) -> Vec<Spec> {
    use Kind::*;
    let e = Spec::echo;
    let mut v = vec![Spec::un(Ema, n, e()), Spec::un(SuperSmoother, n, e()), Spec::un(CyberCycle, n, e())];
    if n >= 2 {
        for m in if quick { vec![1, 4] } else { vec![1, 4, 10] } {
            v.push(Spec::roofing(n, m, e()));
        }
        v.push(Spec::un(LaguerreRsi, n, e()));
        v.push(Spec::with_ma(Eft, n, e(), Spec::un(Ema, 5, e())));
        v.push(Spec::with_ma(Eft, n, e(), Spec::un(Sma, 3, e())));
    }
    if n >= 3 {
        v.push(Spec::un(TrendFlex, n, e()));
        v.push(Spec::un(ReFlex, n, e()));
    }
    v
}

pub fn run(ctx: &Ctx) -> CheckOutput {
    let quick = ctx.tier == Tier::Quick;
    let mut ns: Vec<usize> = if quick { (1..=16).chain([20, 24, 32, 48, 64]).collect() } else { (1..=128).collect() };
    let big: Vec<usize> = if quick { vec![128, 1000] } else { vec![192, 256, 384, 512, 768, 1000] };
    ns.extend(big.iter());
    let pre_small = sequences_upto(&[0.0, 1.0, -1.0], if quick { 2 } else { 5 });
    let pre_big = sequences_upto(&[0.0, 1.0, -1.0], if quick { 1 } else { 2 });
    let mut jobs: Vec<Job> = vec![];
    for n in ns {
        for spec in recursive_specs(n, quick) {
            let slow = matches!(spec.kind, Kind::TrendFlex | Kind::ReFlex);
            let prefixes = if n > 64 { pre_big.clone() } else { pre_small.clone() };
            let _ = slow;
            let t = horizon(&spec, if quick { 1000 } else { 4000 });
            jobs.push(Box::new(move || {
                let mut st = Stats::default();
                let sink = Sink::new();
                check(&spec, &prefixes, t, &mut st, &sink);
                if n <= 64 {
                    check_gaps(&spec, &mut st, &sink);
                    check_spikes(&spec, &mut st, &sink);
                }
                JobOut { stats: st, viols: sink.take(), samples: vec![json!({"view":spec.name(),"prefixes":prefixes.len(),"tails":TAILS,"T":t,"pole":dynamics(&spec).0})] }
            }));
        }
    }
    // the self-normalised members on a tail twenty decades below the prefixes
    for n in if quick { vec![2usize, 3, 5, 8, 16] } else { (2..=24).chain([32, 48, 64]).collect() } {
        for spec in recursive_specs(n, true).into_iter().filter(|s| normalising(s.kind)) {
            let unit = 2f64.powi(-70);
            let prefixes: Vec<Vec<f64>> = pre_big.iter().cloned().chain([vec![1.0, -1.0, 1.0], vec![0.0, 3.0, 1.0, 2.0]]).collect();
            let t = horizon_for(&spec, if quick { 1500 } else { 6000 }, 1e-14 * unit * 1e-6);
            jobs.push(Box::new(move || {
                let mut st = Stats::default();
                let sink = Sink::new();
                check_unit(&spec, &prefixes, t, unit, &mut st, &sink);
                JobOut { stats: st, viols: sink.take(), samples: vec![json!({"view":spec.name(),"prefixes":prefixes.len(),"tails":"the three periodic tails x 2^-70","T":t})] }
            }));
        }
    }
    // the coarse scalar on a zero tail: ties between consecutive outputs become reachable
    for n in if quick { (2usize..=16).collect::<Vec<_>>() } else { (2..=40).collect() } {
        for spec in [Spec::un(Kind::SuperSmoother, n, Spec::echo()), Spec::un(Kind::Ema, n, Spec::echo()), Spec::roofing(n, 2, Spec::echo()), Spec::un(Kind::CyberCycle, n, Spec::echo())] {
            let pdepth = if quick { 5 } else { 7 };
            let t = horizon_for(&spec, 600, 1e-12).min(6000);
            jobs.push(Box::new(move || {
                let mut st = Stats::default();
                let sink = Sink::new();
                check_zero_tail_coarse(&spec, pdepth, t, &mut st, &sink);
                JobOut { stats: st, viols: sink.take(), samples: vec![json!({"view":spec.name(),"scalar":"Lo (10-bit significand)","prefixes":format!("every ternary sequence up to length {}", pdepth),"tail":"zeros","T":t})] }
            }));
        }
    }
    for g in [0.0, 0.5, 0.8] {
        let spec = Spec::unp(Kind::LaguerreFilter, 0, vec![g], Spec::echo());
        jobs.push(Box::new(move || {
            let mut st = Stats::default();
            let sink = Sink::new();
            check_zero_tail_coarse(&spec, if quick { 5 } else { 7 }, 1500, &mut st, &sink);
            JobOut { stats: st, viols: sink.take(), samples: vec![] }
        }));
    }
    // f32 on constant tails, deeper prefixes, the value-like members
    for n in if quick { (2usize..=12).collect::<Vec<_>>() } else { (2..=32).collect() } {
        for spec in [Spec::un(Kind::SuperSmoother, n, Spec::echo()), Spec::un(Kind::Ema, n, Spec::echo()), Spec::roofing(n, 2, Spec::echo()), Spec::un(Kind::CyberCycle, n, Spec::echo())] {
            let pdepth = if quick { 6 } else { 8 };
            let t = horizon_for(&spec, 600, 1e-9).min(4000);
            jobs.push(Box::new(move || {
                let mut st = Stats::default();
                let sink = Sink::new();
                check_flat_f32(&spec, pdepth, t, &mut st, &sink);
                JobOut { stats: st, viols: sink.take(), samples: vec![json!({"view":spec.name(),"scalar":"f32","prefixes":format!("every ternary sequence up to length {}", pdepth),"tails":"constant 0 and 1","T":t})] }
            }));
        }
    }
    for g in [0.0, 0.2, 0.5, 0.8, 0.95] {
        let spec = Spec::unp(Kind::LaguerreFilter, 0, vec![g], Spec::echo());
        let prefixes = pre_small.clone();
        jobs.push(Box::new(move || {
            let mut st = Stats::default();
            let sink = Sink::new();
            check(&spec, &prefixes, horizon(&spec, if quick { 2000 } else { 20000 }), &mut st, &sink);
            JobOut { stats: st, viols: sink.take(), samples: vec![] }
        }));
    }
    // two-level chains among the recursive views
    for (no, ni) in if quick { vec![(5usize, 8usize)] } else { vec![(5, 8), (12, 3), (3, 3)] } {
        for outer in recursive_specs(no, true) {
            for inner in recursive_specs(ni, true) {
                let mut spec = outer.clone();
                spec.ch[0] = inner.clone();
                let prefixes = pre_big.clone();
                jobs.push(Box::new(move || {
                    let mut st = Stats::default();
                    let sink = Sink::new();
                    check(&spec, &prefixes, horizon(&spec, if quick { 1500 } else { 6000 }), &mut st, &sink);
                    JobOut { stats: st, viols: sink.take(), samples: vec![] }
                }));
            }
        }
    }
    let o = run_jobs(jobs, ctx.seed);
    CheckOutput {
        stats: o.stats,
        violations: o.viols,
        samples: o.samples,
        rule: "every recursive view x every N in the stated list (all N to 16 and selected N to 1000 quick; all N to 64 and five larger thorough), LaguerreFilter for five gammas, two-level chains: every prefix over Z3 up to the stated length x three periodic tails, extended to T steps; (a) every output finite, within the documented absolute bound, and sup|out| over T no larger than over T/4; (b) against the empty prefix the outputs converge under a geometric envelope whose rate is the square root of the slowest documented pole, and agree to 1e-9 from T/2 on; (a') the documented bound across quiet stretches of 64, 512 and 3000 identical values between lively stretches; (b') a 1e12 spike before the common tail is forgotten: outputs agree to the rounding floor over the last quarter of a horizon sized for 30 decades of decay".into(),
        assumptions: vec!["'unbounded length' is decided up to T; the driver set is exhaustive, the horizon is a bound".into(), "the envelope rate comes from the documented equations, not from the data".into()],
        exhaustive: true,
        bounds: json!({"T": "2*(FIR memory + steps for the documented envelope to reach 1e-14) + 200, at least 1000 (quick) / 4000 (thorough)"}),
    }
}
