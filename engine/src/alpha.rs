//! Alphabets (DESIGN.md 1.4)
pub const Z3: [f64; 3] = [0.0, 1.0, -1.0];
pub const Z5: [f64; 5] = [0.0, 1.0, -1.0, -2.0, 3.0];
pub const P4: [f64; 4] = [1.0, 2.0, 3.0, 5.0];
pub const D4: [f64; 4] = [0.25, -0.5, 1.5, 4.0];
pub const F4P: [f64; 4] = [0.1, 0.7, 3.3, 99.7];
pub const F6: [f64; 6] = [0.1, 0.7, 3.3, 99.7, -0.7, -99.7];
pub const F7: [f64; 7] = [0.1, 0.7, 3.3, 99.7, -0.7, -99.7, 1000.7];
pub const F5P: [f64; 5] = [0.1, 0.7, 3.3, 99.7, 1000.7];
pub const BIG: [f64; 4] = [1e6, -1e6, 12345.678, -12345.678];

pub fn cat(a: &[f64], b: &[f64]) -> Vec<f64> {
    let mut v = a.to_vec();
    v.extend_from_slice(b);
    v
}
