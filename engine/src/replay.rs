//! Replay of a recorded operation list against the real implementation, with
//! no explorer involved.

use crate::explore::guard;
use crate::q::Q;
use crate::report::{Op, Violation};
use crate::scalar::{opt_key, Scalar};
use crate::spec::{build, Spec};
use serde_json::{json, Value};
use sliding_features::View;

pub fn run_ops<T: Scalar>(spec: &Spec, ops: &[Op]) -> Vec<String> {
    T::reset_arena();
    let mut obs = vec![];
    let built = guard(|| build::<T>(spec));
    let mut v = match built {
        Ok(v) => v,
        Err(m) => {
            obs.push(format!("constructor panicked: {}", m));
            return obs;
        }
    };
    for op in ops {
        let r = guard(|| {
            match op {
                Op::U(x) => v.update(T::of(*x)),
                Op::Call(c) if c == "clone" => {
                    v = v.clone();
                }
                Op::Call(_) => {}
            }
            let l = v.last();
            match l {
                Some(x) => format!("Some({:?}) [{}]", x.f(), x.key()),
                None => opt_key::<T>(None),
            }
        });
        match r {
            Ok(s) => obs.push(s),
            Err(m) => {
                obs.push(format!("PANIC: {}", m));
                break;
            }
        }
    }
    obs
}

pub fn run_ops_scalar(scalar: &str, spec: &Spec, ops: &[Op]) -> Vec<String> {
    match scalar {
        "f32" => run_ops::<f32>(spec, ops),
        "Q" => run_ops::<Q>(spec, ops),
        s if s.starts_with("Lo") => run_ops::<crate::lo::Lo>(spec, ops),
        _ => run_ops::<f64>(spec, ops),
    }
}

pub fn make_replay_file(v: &Violation) -> Value {
    let obs = run_ops_scalar(&v.scalar, &v.spec, &v.ops);
    json!({
        "property": v.property,
        "clause": v.clause,
        "view": v.view,
        "kind": v.kind,
        "scalar": v.scalar,
        "profile": v.profile,
        "n": v.n,
        "tags": v.tags,
        "spec": v.spec,
        "ops": v.ops,
        "detail": v.detail,
        "observed_last_after_each_op": obs,
    })
}

pub fn deterministic(v: &Violation) -> bool {
    let a = run_ops_scalar(&v.scalar, &v.spec, &v.ops);
    let b = run_ops_scalar(&v.scalar, &v.spec, &v.ops);
    a == b
}

/// `sfmc replay <file>`
pub fn replay_file(path: &str) -> i32 {
    let s = match std::fs::read_to_string(path) {
        Ok(s) => s,
        Err(e) => {
            eprintln!("cannot read {}: {}", path, e);
            return 2;
        }
    };
    let v: Value = serde_json::from_str(&s).expect("replay file parses");
    let spec: Spec = serde_json::from_value(v["spec"].clone()).expect("spec");
    let ops: Vec<Op> = serde_json::from_value(v["ops"].clone()).expect("ops");
    let scalar = v["scalar"].as_str().unwrap_or("f64");
    println!("property {} clause {} view {} scalar {} (recorded under profile {}, replaying under {})",
        v["property"], v["clause"], spec.name(), scalar, v["profile"], crate::PROFILE);
    println!("recorded: {}", v["detail"].as_str().unwrap_or(""));
    let obs = run_ops_scalar(scalar, &spec, &ops);
    let obs2 = run_ops_scalar(scalar, &spec, &ops);
    for (i, o) in obs.iter().enumerate() {
        println!("  step {:3} op {:?} -> last() = {}", i, ops.get(i), o);
    }
    if obs != obs2 {
        println!("NON-DETERMINISTIC: two replays differ");
        return 2;
    }
    let rec: Vec<String> = serde_json::from_value(v["observed_last_after_each_op"].clone()).unwrap_or_default();
    if rec == obs {
        println!("replay reproduces the recorded observations");
        1
    } else {
        println!("replay differs from the recorded observations (the tree has changed)");
        0
    }
}
