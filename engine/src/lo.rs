//! `Lo`: a coarse floating-point scalar — f64 range, but every arithmetic result is rounded to
//! `BITS` explicit mantissa bits (a 10-bit significand, comparable to half precision's 11).
//!
//! Why a fourth scalar: behaviour keyed on an exact numerical coincidence ("the output did not
//! change", "the new mean equals the old one", "the incoming value equals the outgoing one's image")
//! needs two computed quantities to be bit-identical. At f64 that essentially never happens on a
//! moving signal and at f32 about once in 10^5 runs; with a 10-bit significand a tie at a turning
//! point happens in a few per cent of the runs, so an exhaustive enumeration of short prefixes
//! reaches those states. The crate's code is generic over `num::Float`, so it is the real code that
//! runs, exactly as with the rational scalar `Q`, only with a small numeric state space.
//!
//! Rounding is to nearest, ties away from zero, on the f64 bit pattern (adding half a unit of the
//! last kept place may carry into the exponent, which is the correct rounding to the next binade).

use num::{Num, NumCast, One, ToPrimitive, Zero};
use std::cmp::Ordering;
use std::ops::{Add, Div, Mul, Neg, Rem, Sub};

pub const BITS: u32 = 9;

#[derive(Clone, Copy, Debug, Default)]
pub struct Lo(pub f64);

#[inline]
pub fn round(x: f64) -> f64 {
    if !x.is_finite() || x == 0.0 {
        return x;
    }
    let drop = 52 - BITS;
    let half = 1u64 << (drop - 1);
    let mask = !((1u64 << drop) - 1);
    f64::from_bits((x.to_bits() + half) & mask)
}

#[inline]
fn lo(x: f64) -> Lo {
    Lo(round(x))
}

impl Add for Lo {
    type Output = Lo;
    fn add(self, o: Lo) -> Lo {
        lo(self.0 + o.0)
    }
}
impl Sub for Lo {
    type Output = Lo;
    fn sub(self, o: Lo) -> Lo {
        lo(self.0 - o.0)
    }
}
impl Mul for Lo {
    type Output = Lo;
    fn mul(self, o: Lo) -> Lo {
        lo(self.0 * o.0)
    }
}
impl Div for Lo {
    type Output = Lo;
    fn div(self, o: Lo) -> Lo {
        lo(self.0 / o.0)
    }
}
impl Rem for Lo {
    type Output = Lo;
    fn rem(self, o: Lo) -> Lo {
        lo(self.0 % o.0)
    }
}
impl Neg for Lo {
    type Output = Lo;
    fn neg(self) -> Lo {
        Lo(-self.0)
    }
}
impl PartialEq for Lo {
    fn eq(&self, o: &Lo) -> bool {
        self.0 == o.0
    }
}
impl PartialOrd for Lo {
    fn partial_cmp(&self, o: &Lo) -> Option<Ordering> {
        self.0.partial_cmp(&o.0)
    }
}
impl Zero for Lo {
    fn zero() -> Lo {
        Lo(0.0)
    }
    fn is_zero(&self) -> bool {
        self.0 == 0.0
    }
}
impl One for Lo {
    fn one() -> Lo {
        Lo(1.0)
    }
}
impl Num for Lo {
    type FromStrRadixErr = ();
    fn from_str_radix(_s: &str, _r: u32) -> Result<Lo, ()> {
        Err(())
    }
}
impl ToPrimitive for Lo {
    fn to_i64(&self) -> Option<i64> {
        self.0.to_i64()
    }
    fn to_u64(&self) -> Option<u64> {
        self.0.to_u64()
    }
    fn to_f64(&self) -> Option<f64> {
        Some(self.0)
    }
}
impl NumCast for Lo {
    fn from<N: ToPrimitive>(n: N) -> Option<Lo> {
        n.to_f64().map(lo)
    }
}

macro_rules! unary {
    ($($name:ident),*) => { $( fn $name(self) -> Lo { lo(self.0.$name()) } )* };
}

impl num::Float for Lo {
    fn nan() -> Lo {
        Lo(f64::NAN)
    }
    fn infinity() -> Lo {
        Lo(f64::INFINITY)
    }
    fn neg_infinity() -> Lo {
        Lo(f64::NEG_INFINITY)
    }
    fn neg_zero() -> Lo {
        Lo(-0.0)
    }
    fn min_value() -> Lo {
        lo(f64::MIN / 2.0)
    }
    fn min_positive_value() -> Lo {
        Lo(f64::MIN_POSITIVE)
    }
    fn max_value() -> Lo {
        lo(f64::MAX / 2.0)
    }
    fn epsilon() -> Lo {
        Lo(2f64.powi(-(BITS as i32)))
    }
    fn is_nan(self) -> bool {
        self.0.is_nan()
    }
    fn is_infinite(self) -> bool {
        self.0.is_infinite()
    }
    fn is_finite(self) -> bool {
        self.0.is_finite()
    }
    fn is_normal(self) -> bool {
        self.0.is_normal()
    }
    fn classify(self) -> std::num::FpCategory {
        self.0.classify()
    }
    unary!(floor, ceil, round, trunc, fract, recip, sqrt, exp, exp2, ln, log2, log10, cbrt, sin, cos, tan, asin, acos, atan, exp_m1, ln_1p, sinh, cosh, tanh, asinh, acosh, atanh);
    fn abs(self) -> Lo {
        Lo(self.0.abs())
    }
    fn signum(self) -> Lo {
        Lo(self.0.signum())
    }
    fn is_sign_positive(self) -> bool {
        self.0.is_sign_positive()
    }
    fn is_sign_negative(self) -> bool {
        self.0.is_sign_negative()
    }
    fn mul_add(self, a: Lo, b: Lo) -> Lo {
        lo(self.0.mul_add(a.0, b.0))
    }
    fn powi(self, n: i32) -> Lo {
        lo(self.0.powi(n))
    }
    fn powf(self, n: Lo) -> Lo {
        lo(self.0.powf(n.0))
    }
    fn log(self, base: Lo) -> Lo {
        lo(self.0.log(base.0))
    }
    fn max(self, o: Lo) -> Lo {
        Lo(self.0.max(o.0))
    }
    fn min(self, o: Lo) -> Lo {
        Lo(self.0.min(o.0))
    }
    fn abs_sub(self, o: Lo) -> Lo {
        lo((self.0 - o.0).max(0.0))
    }
    fn hypot(self, o: Lo) -> Lo {
        lo(self.0.hypot(o.0))
    }
    fn atan2(self, o: Lo) -> Lo {
        lo(self.0.atan2(o.0))
    }
    fn sin_cos(self) -> (Lo, Lo) {
        let (s, c) = self.0.sin_cos();
        (lo(s), lo(c))
    }
    fn integer_decode(self) -> (u64, i16, i8) {
        num::Float::integer_decode(self.0)
    }
}

pub fn self_test() -> Result<(), String> {
    let chk = |c: bool, m: &str| if c { Ok(()) } else { Err(format!("coarse scalar self-test: {}", m)) };
    chk(round(1.0) == 1.0 && round(-0.75) == -0.75 && round(0.0) == 0.0, "short dyadics are exact")?;
    chk(round(1.0 + 2f64.powi(-10)) == 1.0 + 2f64.powi(-9), "half a unit rounds away from zero")?;
    chk(round(1.0 + 2f64.powi(-11)) == 1.0, "less than half a unit rounds down")?;
    chk(round(1.999999) == 2.0, "rounding carries into the next binade")?;
    chk((Lo(1.0) / Lo(3.0)).0 == round(1.0 / 3.0) && ((Lo(1.0) / Lo(3.0)).0 - 1.0 / 3.0).abs() < 2f64.powi(-10), "division is rounded to the format")?;
    chk(round(round(0.1)) == round(0.1), "rounding is idempotent")?;
    Ok(())
}
