//! `Q`: an exact rational scalar that implements `num::Float`, so that the
//! repository's generic code can be instantiated at it unchanged.
//!
//! A `Q` is a `Copy` handle into a thread-local arena of values. `+ - * /`,
//! comparisons, `abs`, `signum`, `powi`, `min`/`max`, `clamp` are exact.
//! Infinities and NaN exist (IEEE-like) so that divisions by zero behave as in
//! floating point (`is_finite()` is then false) instead of panicking inside the
//! big-number library. Irrational functions return the exact value where one
//! exists in Q (sqrt of a perfect square, exp(0), ln(1), cos(0) ...) and
//! otherwise the f64-rounded value re-read as an exact rational; each such
//! rounding bumps `inexact_ops()` so oracles can choose `==` or a tolerance.

use num_bigint::BigInt;
use num_rational::BigRational;
use num_traits::{FromPrimitive, Num, NumCast, One, Signed, ToPrimitive, Zero};
use std::cell::{Cell, RefCell};
use std::cmp::Ordering;
use std::fmt;
use std::ops::{Add, Div, Mul, Neg, Rem, Sub};

#[derive(Clone, Debug)]
pub enum Val {
    Fin(BigRational),
    PosInf,
    NegInf,
    NaN,
}

thread_local! {
    static ARENA: RefCell<Vec<Val>> = RefCell::new(Vec::with_capacity(1 << 16));
    static INEXACT: Cell<u64> = const { Cell::new(0) };
    static OPS: Cell<u64> = const { Cell::new(0) };
}

#[derive(Clone, Copy)]
pub struct Q(u32);

fn push(v: Val) -> Q {
    ARENA.with(|a| {
        let mut a = a.borrow_mut();
        let i = a.len();
        assert!(i < u32::MAX as usize, "Q arena exhausted");
        a.push(v);
        Q(i as u32)
    })
}

fn fin(r: BigRational) -> Q {
    push(Val::Fin(r))
}

impl Q {
    pub fn mark() -> usize {
        ARENA.with(|a| a.borrow().len())
    }
    pub fn rollback(mark: usize) {
        ARENA.with(|a| a.borrow_mut().truncate(mark));
    }
    pub fn reset() {
        ARENA.with(|a| a.borrow_mut().clear());
        INEXACT.with(|c| c.set(0));
    }
    pub fn inexact_ops() -> u64 {
        INEXACT.with(|c| c.get())
    }
    pub fn ops() -> u64 {
        OPS.with(|c| c.get())
    }
    pub fn get(self) -> Val {
        ARENA.with(|a| a.borrow()[self.0 as usize].clone())
    }
    fn with<R>(self, f: impl FnOnce(&Val) -> R) -> R {
        ARENA.with(|a| f(&a.borrow()[self.0 as usize]))
    }
    fn with2<R>(self, o: Q, f: impl FnOnce(&Val, &Val) -> R) -> R {
        ARENA.with(|a| {
            let a = a.borrow();
            f(&a[self.0 as usize], &a[o.0 as usize])
        })
    }
    pub fn from_f64_exact(x: f64) -> Q {
        if x.is_nan() {
            return push(Val::NaN);
        }
        if x == f64::INFINITY {
            return push(Val::PosInf);
        }
        if x == f64::NEG_INFINITY {
            return push(Val::NegInf);
        }
        fin(BigRational::from_f64(x).expect("finite f64 is rational"))
    }
    pub fn from_ratio(n: i64, d: i64) -> Q {
        fin(BigRational::new(BigInt::from(n), BigInt::from(d)))
    }
    pub fn to_f64_lossy(self) -> f64 {
        self.with(|v| match v {
            Val::Fin(r) => ratio_to_f64(r),
            Val::PosInf => f64::INFINITY,
            Val::NegInf => f64::NEG_INFINITY,
            Val::NaN => f64::NAN,
        })
    }
    pub fn key(self) -> String {
        self.with(|v| match v {
            Val::Fin(r) => format!("{}/{}", r.numer(), r.denom()),
            Val::PosInf => "inf".into(),
            Val::NegInf => "-inf".into(),
            Val::NaN => "NaN".into(),
        })
    }
    /// bits of denominator (size indicator)
    pub fn bits(self) -> u64 {
        self.with(|v| match v {
            Val::Fin(r) => r.denom().bits() + r.numer().bits(),
            _ => 0,
        })
    }
    fn inexact(self, f: impl Fn(f64) -> f64) -> Q {
        INEXACT.with(|c| c.set(c.get() + 1));
        Q::from_f64_exact(f(self.to_f64_lossy()))
    }
    fn is_zero_v(self) -> bool {
        self.with(|v| matches!(v, Val::Fin(r) if r.is_zero()))
    }
    fn is_one_v(self) -> bool {
        self.with(|v| matches!(v, Val::Fin(r) if r.is_one()))
    }
}

/// Correctly handle huge numerators/denominators (BigRational::to_f64 can
/// return None/inf when numer or denom overflow f64 individually).
fn ratio_to_f64(r: &BigRational) -> f64 {
    if let Some(x) = r.to_f64() {
        if x.is_finite() {
            return x;
        }
    }
    // scale down
    let nb = r.numer().bits() as i64;
    let db = r.denom().bits() as i64;
    let shift = (nb.max(db) - 900).max(0) as usize;
    let n: BigInt = r.numer() >> shift;
    let d: BigInt = r.denom() >> shift;
    if d.is_zero() {
        return if r.is_negative() {
            f64::NEG_INFINITY
        } else {
            f64::INFINITY
        };
    }
    let nf = n.to_f64().unwrap_or(f64::NAN);
    let df = d.to_f64().unwrap_or(f64::NAN);
    nf / df
}

impl fmt::Debug for Q {
    fn fmt(&self, f: &mut fmt::Formatter<'_>) -> fmt::Result {
        write!(f, "{}", self.key())
    }
}
impl fmt::Display for Q {
    fn fmt(&self, f: &mut fmt::Formatter<'_>) -> fmt::Result {
        write!(f, "{}", self.key())
    }
}

fn sign_of(v: &Val) -> i32 {
    match v {
        Val::Fin(r) => {
            if r.is_positive() {
                1
            } else if r.is_negative() {
                -1
            } else {
                0
            }
        }
        Val::PosInf => 1,
        Val::NegInf => -1,
        Val::NaN => 0,
    }
}

fn add_v(a: &Val, b: &Val) -> Val {
    use Val::*;
    match (a, b) {
        (NaN, _) | (_, NaN) => NaN,
        (Fin(x), Fin(y)) => Fin(x + y),
        (PosInf, NegInf) | (NegInf, PosInf) => NaN,
        (PosInf, _) | (_, PosInf) => PosInf,
        (NegInf, _) | (_, NegInf) => NegInf,
    }
}
fn neg_v(a: &Val) -> Val {
    use Val::*;
    match a {
        NaN => NaN,
        Fin(x) => Fin(-x),
        PosInf => NegInf,
        NegInf => PosInf,
    }
}
fn mul_v(a: &Val, b: &Val) -> Val {
    use Val::*;
    match (a, b) {
        (NaN, _) | (_, NaN) => NaN,
        (Fin(x), Fin(y)) => Fin(x * y),
        _ => {
            let s = sign_of(a) * sign_of(b);
            if s == 0 {
                NaN
            } else if s > 0 {
                PosInf
            } else {
                NegInf
            }
        }
    }
}
fn div_v(a: &Val, b: &Val) -> Val {
    use Val::*;
    match (a, b) {
        (NaN, _) | (_, NaN) => NaN,
        (Fin(x), Fin(y)) => {
            if y.is_zero() {
                if x.is_zero() {
                    NaN
                } else if x.is_positive() {
                    PosInf
                } else {
                    NegInf
                }
            } else {
                Fin(x / y)
            }
        }
        (Fin(_), _) => Fin(BigRational::zero()),
        (_, Fin(y)) => {
            let s = sign_of(a) * if y.is_negative() { -1 } else { 1 };
            if s > 0 {
                PosInf
            } else {
                NegInf
            }
        }
        _ => NaN,
    }
}
fn cmp_v(a: &Val, b: &Val) -> Option<Ordering> {
    use Val::*;
    match (a, b) {
        (NaN, _) | (_, NaN) => None,
        (Fin(x), Fin(y)) => Some(x.cmp(y)),
        (PosInf, PosInf) | (NegInf, NegInf) => Some(Ordering::Equal),
        (PosInf, _) | (_, NegInf) => Some(Ordering::Greater),
        (NegInf, _) | (_, PosInf) => Some(Ordering::Less),
    }
}

fn bump() {
    OPS.with(|c| c.set(c.get() + 1));
}

impl Add for Q {
    type Output = Q;
    fn add(self, o: Q) -> Q {
        bump();
        let v = self.with2(o, add_v);
        push(v)
    }
}
impl Sub for Q {
    type Output = Q;
    fn sub(self, o: Q) -> Q {
        bump();
        let v = self.with2(o, |a, b| add_v(a, &neg_v(b)));
        push(v)
    }
}
impl Mul for Q {
    type Output = Q;
    fn mul(self, o: Q) -> Q {
        bump();
        let v = self.with2(o, mul_v);
        push(v)
    }
}
impl Div for Q {
    type Output = Q;
    fn div(self, o: Q) -> Q {
        bump();
        let v = self.with2(o, div_v);
        push(v)
    }
}
impl Rem for Q {
    type Output = Q;
    fn rem(self, o: Q) -> Q {
        let v = self.with2(o, |a, b| match (a, b) {
            (Val::Fin(x), Val::Fin(y)) if !y.is_zero() => Val::Fin(x % y),
            _ => Val::NaN,
        });
        push(v)
    }
}
impl Neg for Q {
    type Output = Q;
    fn neg(self) -> Q {
        let v = self.with(neg_v);
        push(v)
    }
}
impl PartialEq for Q {
    fn eq(&self, o: &Q) -> bool {
        self.with2(*o, |a, b| cmp_v(a, b) == Some(Ordering::Equal))
    }
}
impl PartialOrd for Q {
    fn partial_cmp(&self, o: &Q) -> Option<Ordering> {
        self.with2(*o, cmp_v)
    }
}
impl Zero for Q {
    fn zero() -> Q {
        fin(BigRational::zero())
    }
    fn is_zero(&self) -> bool {
        self.is_zero_v()
    }
}
impl One for Q {
    fn one() -> Q {
        fin(BigRational::one())
    }
}
impl Num for Q {
    type FromStrRadixErr = ();
    fn from_str_radix(_s: &str, _r: u32) -> Result<Q, ()> {
        Err(())
    }
}
impl ToPrimitive for Q {
    fn to_i64(&self) -> Option<i64> {
        self.with(|v| match v {
            Val::Fin(r) => r.to_integer().to_i64(),
            _ => None,
        })
    }
    fn to_u64(&self) -> Option<u64> {
        self.with(|v| match v {
            Val::Fin(r) => r.to_integer().to_u64(),
            _ => None,
        })
    }
    fn to_f64(&self) -> Option<f64> {
        Some(self.to_f64_lossy())
    }
}
impl NumCast for Q {
    fn from<N: ToPrimitive>(n: N) -> Option<Q> {
        // integers and floats both go through the exact value of their f64
        // rendering (usize window lengths are far below 2^53).
        n.to_f64().map(Q::from_f64_exact)
    }
}

macro_rules! inexact_fn {
    ($($name:ident),*) => { $( fn $name(self) -> Q { self.inexact(|x| x.$name()) } )* };
}

impl num::Float for Q {
    fn nan() -> Q {
        push(Val::NaN)
    }
    fn infinity() -> Q {
        push(Val::PosInf)
    }
    fn neg_infinity() -> Q {
        push(Val::NegInf)
    }
    fn neg_zero() -> Q {
        Q::zero()
    }
    fn min_value() -> Q {
        Q::from_f64_exact(f64::MIN)
    }
    fn min_positive_value() -> Q {
        Q::from_f64_exact(f64::MIN_POSITIVE)
    }
    fn max_value() -> Q {
        Q::from_f64_exact(f64::MAX)
    }
    fn epsilon() -> Q {
        Q::zero()
    }
    fn is_nan(self) -> bool {
        self.with(|v| matches!(v, Val::NaN))
    }
    fn is_infinite(self) -> bool {
        self.with(|v| matches!(v, Val::PosInf | Val::NegInf))
    }
    fn is_finite(self) -> bool {
        self.with(|v| matches!(v, Val::Fin(_)))
    }
    fn is_normal(self) -> bool {
        self.with(|v| matches!(v, Val::Fin(r) if !r.is_zero()))
    }
    fn classify(self) -> std::num::FpCategory {
        use std::num::FpCategory::*;
        self.with(|v| match v {
            Val::NaN => Nan,
            Val::PosInf | Val::NegInf => Infinite,
            Val::Fin(r) if r.is_zero() => Zero,
            _ => Normal,
        })
    }
    fn floor(self) -> Q {
        let v = self.with(|v| match v {
            Val::Fin(r) => Val::Fin(r.floor()),
            o => o.clone(),
        });
        push(v)
    }
    fn ceil(self) -> Q {
        let v = self.with(|v| match v {
            Val::Fin(r) => Val::Fin(r.ceil()),
            o => o.clone(),
        });
        push(v)
    }
    fn round(self) -> Q {
        let v = self.with(|v| match v {
            Val::Fin(r) => Val::Fin(r.round()),
            o => o.clone(),
        });
        push(v)
    }
    fn trunc(self) -> Q {
        let v = self.with(|v| match v {
            Val::Fin(r) => Val::Fin(r.trunc()),
            o => o.clone(),
        });
        push(v)
    }
    fn fract(self) -> Q {
        let v = self.with(|v| match v {
            Val::Fin(r) => Val::Fin(r.fract()),
            _ => Val::NaN,
        });
        push(v)
    }
    fn abs(self) -> Q {
        let v = self.with(|v| match v {
            Val::Fin(r) => Val::Fin(r.abs()),
            Val::NaN => Val::NaN,
            _ => Val::PosInf,
        });
        push(v)
    }
    /// f64 semantics: signum(+0.0) == 1.0, signum(NaN) is NaN. The rational
    /// zero is +0, so signum(0) = 1 exactly as `0.0f64.signum()` does.
    fn signum(self) -> Q {
        let v = self.with(|v| match v {
            Val::NaN => Val::NaN,
            o => {
                if sign_of(o) < 0 {
                    Val::Fin(-BigRational::one())
                } else {
                    Val::Fin(BigRational::one())
                }
            }
        });
        push(v)
    }
    fn is_sign_positive(self) -> bool {
        self.with(|v| sign_of(v) >= 0)
    }
    fn is_sign_negative(self) -> bool {
        self.with(|v| sign_of(v) < 0)
    }
    fn mul_add(self, a: Q, b: Q) -> Q {
        self * a + b
    }
    fn recip(self) -> Q {
        Q::one() / self
    }
    fn powi(self, n: i32) -> Q {
        bump();
        let v = self.with(|v| match v {
            Val::Fin(r) => {
                if n >= 0 {
                    Val::Fin(num_traits::pow(r.clone(), n as usize))
                } else if r.is_zero() {
                    Val::PosInf
                } else {
                    Val::Fin(num_traits::pow(r.recip(), (-(n as i64)) as usize))
                }
            }
            Val::NaN => Val::NaN,
            Val::PosInf => {
                if n > 0 {
                    Val::PosInf
                } else if n == 0 {
                    Val::Fin(BigRational::one())
                } else {
                    Val::Fin(BigRational::zero())
                }
            }
            Val::NegInf => {
                if n > 0 {
                    if n % 2 == 0 {
                        Val::PosInf
                    } else {
                        Val::NegInf
                    }
                } else if n == 0 {
                    Val::Fin(BigRational::one())
                } else {
                    Val::Fin(BigRational::zero())
                }
            }
        });
        push(v)
    }
    fn powf(self, n: Q) -> Q {
        let e = n.to_f64_lossy();
        self.inexact(|x| x.powf(e))
    }
    fn sqrt(self) -> Q {
        bump();
        let exact = self.with(|v| match v {
            Val::Fin(r) => {
                if r.is_negative() {
                    Some(Val::NaN)
                } else {
                    let n = r.numer().sqrt();
                    let d = r.denom().sqrt();
                    if &(&n * &n) == r.numer() && &(&d * &d) == r.denom() {
                        Some(Val::Fin(BigRational::new(n, d)))
                    } else {
                        None
                    }
                }
            }
            Val::NaN | Val::NegInf => Some(Val::NaN),
            Val::PosInf => Some(Val::PosInf),
        });
        match exact {
            Some(v) => push(v),
            None => self.inexact(|x| x.sqrt()),
        }
    }
    fn exp(self) -> Q {
        if self.is_zero_v() {
            return Q::one();
        }
        self.inexact(|x| x.exp())
    }
    fn exp2(self) -> Q {
        self.inexact(|x| x.exp2())
    }
    fn ln(self) -> Q {
        if self.is_one_v() {
            return Q::zero();
        }
        self.inexact(|x| x.ln())
    }
    fn log(self, base: Q) -> Q {
        let b = base.to_f64_lossy();
        self.inexact(|x| x.log(b))
    }
    fn log2(self) -> Q {
        if self.is_one_v() {
            return Q::zero();
        }
        if self.is_zero_v() {
            return push(Val::NegInf);
        }
        // exact for powers of two (1/2, 1/4, 2, ...)
        let exact = self.with(|v| match v {
            Val::Fin(r) if r.is_positive() => {
                if r.numer().is_one() {
                    let d = r.denom();
                    let tz = d.trailing_zeros().unwrap_or(0);
                    if d == &(BigInt::one() << tz as usize) {
                        return Some(-(tz as i64));
                    }
                    None
                } else if r.denom().is_one() {
                    let n = r.numer();
                    let tz = n.trailing_zeros().unwrap_or(0);
                    if n == &(BigInt::one() << tz as usize) {
                        return Some(tz as i64);
                    }
                    None
                } else {
                    None
                }
            }
            _ => None,
        });
        if let Some(k) = exact {
            return Q::from_ratio(k, 1);
        }
        self.inexact(|x| x.log2())
    }
    fn log10(self) -> Q {
        self.inexact(|x| x.log10())
    }
    fn max(self, o: Q) -> Q {
        if self.is_nan() {
            return o;
        }
        if o.is_nan() {
            return self;
        }
        if self >= o {
            self
        } else {
            o
        }
    }
    fn min(self, o: Q) -> Q {
        if self.is_nan() {
            return o;
        }
        if o.is_nan() {
            return self;
        }
        if self <= o {
            self
        } else {
            o
        }
    }
    fn abs_sub(self, o: Q) -> Q {
        if self <= o {
            Q::zero()
        } else {
            self - o
        }
    }
    fn cbrt(self) -> Q {
        self.inexact(|x| x.cbrt())
    }
    fn hypot(self, o: Q) -> Q {
        (self * self + o * o).sqrt()
    }
    fn sin(self) -> Q {
        if self.is_zero_v() {
            return Q::zero();
        }
        self.inexact(|x| x.sin())
    }
    fn cos(self) -> Q {
        if self.is_zero_v() {
            return Q::one();
        }
        self.inexact(|x| x.cos())
    }
    fn tanh(self) -> Q {
        if self.is_zero_v() {
            return Q::zero();
        }
        self.inexact(|x| x.tanh())
    }
    inexact_fn!(tan, asin, acos, atan, exp_m1, ln_1p, sinh, cosh, asinh, acosh, atanh);
    fn atan2(self, o: Q) -> Q {
        let b = o.to_f64_lossy();
        self.inexact(|x| x.atan2(b))
    }
    fn sin_cos(self) -> (Q, Q) {
        (self.sin(), self.cos())
    }
    fn integer_decode(self) -> (u64, i16, i8) {
        self.to_f64_lossy().integer_decode()
    }
}

/// Sanity of the exact scalar itself, run before every check (a wrong `Q` would silently
/// turn exact comparisons into false alarms or false passes). Returns the first failure.
pub fn self_test() -> Result<(), String> {
    use num::Float;
    Q::reset();
    let q = Q::from_ratio;
    let ck = |name: &str, ok: bool| if ok { Ok(()) } else { Err(format!("Q self-test failed: {}", name)) };
    ck("1/3 + 1/6 == 1/2", q(1, 3) + q(1, 6) == q(1, 2))?;
    ck("2/3 * 3/4 == 1/2", q(2, 3) * q(3, 4) == q(1, 2))?;
    ck("(1/3) / (2/9) == 3/2", q(1, 3) / q(2, 9) == q(3, 2))?;
    ck("1/3 - 1/2 == -1/6", q(1, 3) - q(1, 2) == q(-1, 6))?;
    ck("ordering", q(1, 3) < q(1, 2) && q(-1, 2) < q(-1, 3) && !(q(1, 2) < q(1, 2)))?;
    ck("0.1 is the exact value of the f64 literal", Q::from_f64_exact(0.1).key() == "3602879701896397/36028797018963968")?;
    ck("0.5 + 0.25 exact", Q::from_f64_exact(0.5) + Q::from_f64_exact(0.25) == q(3, 4))?;
    let before = Q::inexact_ops();
    ck("sqrt(9/4) == 3/2 exactly", q(9, 4).sqrt() == q(3, 2) && Q::inexact_ops() == before)?;
    ck("sqrt(2) is flagged inexact", { let _ = q(2, 1).sqrt(); Q::inexact_ops() == before + 1 })?;
    ck("powi", q(2, 3).powi(3) == q(8, 27) && q(2, 1).powi(-2) == q(1, 4))?;
    ck("abs / neg / signum", q(-2, 3).abs() == q(2, 3) && -q(2, 3) == q(-2, 3) && q(-5, 1).signum() == q(-1, 1) && q(0, 1).signum() == q(1, 1))?;
    ck("x/0 is infinite, 0/0 is NaN", (q(1, 1) / q(0, 1)).is_infinite() && (q(0, 1) / q(0, 1)).is_nan() && !(q(1, 1) / q(0, 1)).is_finite())?;
    ck("NaN compares false", { let n = q(0, 1) / q(0, 1); !(n == n) && !(n < q(1, 1)) && !(n > q(1, 1)) })?;
    ck("min/max/clamp", q(1, 2).max(q(1, 3)) == q(1, 2) && q(1, 2).min(q(1, 3)) == q(1, 3) && q(5, 1).clamp(q(-1, 1), q(1, 1)) == q(1, 1))?;
    ck("log2 of powers of two is exact", q(1, 4).log2() == q(-2, 1) && q(8, 1).log2() == q(3, 1))?;
    ck("to_f64 of 1/3", (q(1, 3).to_f64_lossy() - 1.0 / 3.0).abs() < 1e-16)?;
    let m = Q::mark();
    let _ = q(7, 9) + q(1, 9);
    Q::rollback(m);
    ck("arena rollback", Q::mark() == m)?;
    Q::reset();
    Ok(())
}
