//! Batch evaluators for the Ehlers-style indicators (C11, DESIGN.md Appendix A).
//! Each takes the complete history of delivered values x_0..x_t and recomputes
//! the answer from scratch with arrays indexed by absolute time.

use crate::refs::{t, tn, window};
use crate::scalar::Scalar;
use crate::spec::{Kind, Spec};

/// which rendering of the one doubly-written constant is used
#[derive(Clone, Copy, PartialEq, Eq, Debug)]
pub enum Rendering {
    /// the angle written as a literal to five digits (4.4422)
    Literal,
    /// the angle computed from the statement's product (1.414*pi, 0.707*2*pi)
    Product,
}

pub struct SsCoef<T> {
    pub c1: T,
    pub b1: T,
    pub c3: T,
}

pub fn ss_coef<T: Scalar>(n: usize, r: Rendering) -> SsCoef<T> {
    let wl = tn::<T>(n);
    let pi = t::<T>(std::f64::consts::PI);
    let a1 = (-t::<T>(1.414) * pi / wl).exp();
    let ang = match r {
        Rendering::Literal => t::<T>(4.4422) / wl,
        Rendering::Product => t::<T>(1.414) * pi / wl,
    };
    let b1 = t::<T>(2.0) * a1 * ang.cos();
    let c3 = -(a1 * a1);
    SsCoef { c1: T::one() - b1 - c3, b1, c3 }
}

/// the full output series f_0..f_t of the two-pole smoother with x_{-1} = x_init
pub fn two_pole<T: Scalar>(x: &[T], c: &SsCoef<T>, x_init: T) -> Vec<T> {
    let mut f: Vec<T> = Vec::with_capacity(x.len());
    for i in 0..x.len() {
        let xm1 = if i == 0 { x_init } else { x[i - 1] };
        let f1 = if i >= 1 { f[i - 1] } else { T::zero() };
        let f2 = if i >= 2 { f[i - 2] } else { T::zero() };
        f.push(c.c1 * (x[i] + xm1) / t::<T>(2.0) + c.b1 * f1 + c.c3 * f2);
    }
    f
}

pub fn super_smoother<T: Scalar>(x: &[T], n: usize, r: Rendering) -> Option<T> {
    if x.len() < n || x.is_empty() {
        return None;
    }
    let f = two_pole(x, &ss_coef::<T>(n, r), T::zero());
    f.last().copied()
}

pub fn roofing<T: Scalar>(x: &[T], n: usize, m: usize, r: Rendering) -> Option<T> {
    let wl = tn::<T>(n);
    let ang = match r {
        Rendering::Literal => t::<T>(4.4422) / wl,
        Rendering::Product => t::<T>(0.707) * t::<T>(2.0) * t::<T>(std::f64::consts::PI) / wl,
    };
    let alpha = (ang.cos() + ang.sin() - T::one()) / ang.cos();
    let two = t::<T>(2.0);
    let mut hp: Vec<T> = Vec::with_capacity(x.len());
    for i in 0..x.len() {
        let x1 = if i >= 1 { x[i - 1] } else { T::zero() };
        let x2 = if i >= 2 { x[i - 2] } else { T::zero() };
        let h1 = if i >= 1 { hp[i - 1] } else { T::zero() };
        let h2 = if i >= 2 { hp[i - 2] } else { T::zero() };
        hp.push(
            (T::one() - alpha / two).powi(2) * (x[i] - two * x1 + x2) + two * (T::one() - alpha) * h1
                - (T::one() - alpha).powi(2) * h2,
        );
    }
    // the smoother is fed hp_t for t >= n+1
    if hp.len() < n + 2 {
        return None;
    }
    let fed = &hp[n + 1..];
    super_smoother(fed, m, r)
}

pub fn laguerre_ladder<T: Scalar>(x: &[T], gamma: T, first_value_init: bool) -> Vec<[T; 4]> {
    let mut out: Vec<[T; 4]> = Vec::with_capacity(x.len());
    for i in 0..x.len() {
        if i == 0 && first_value_init {
            out.push([x[0]; 4]);
            continue;
        }
        let p = if i == 0 { [T::zero(); 4] } else { out[i - 1] };
        let l0 = (T::one() - gamma) * x[i] + gamma * p[0];
        let l1 = -gamma * l0 + p[0] + gamma * p[1];
        let l2 = -gamma * l1 + p[1] + gamma * p[2];
        let l3 = -gamma * l2 + p[2] + gamma * p[3];
        out.push([l0, l1, l2, l3]);
    }
    out
}

pub fn laguerre_filter<T: Scalar>(x: &[T], gamma: T) -> Option<T> {
    if x.is_empty() {
        return None;
    }
    let l = *laguerre_ladder(x, gamma, true).last().unwrap();
    Some((l[0] + t::<T>(2.0) * l[1] + t::<T>(2.0) * l[2] + l[3]) / t::<T>(6.0))
}

pub fn laguerre_rsi<T: Scalar>(x: &[T], n: usize) -> Option<T> {
    let gamma = t::<T>(2.0) / (tn::<T>(n) + T::one());
    if x.len() < 3 {
        return None;
    }
    // the first two delivered values leave the ladder at zero
    let lad = laguerre_ladder(&x[2..], gamma, false);
    let mut out = None;
    for l in lad {
        let (mut cu, mut cd) = (T::zero(), T::zero());
        for k in 0..3 {
            if l[k] >= l[k + 1] {
                cu = cu + (l[k] - l[k + 1]);
            } else {
                cd = cd + (l[k + 1] - l[k]);
            }
        }
        if cu + cd != T::zero() {
            out = Some(cu / (cu + cd));
        }
    }
    out
}

pub fn cyber_cycle<T: Scalar>(x: &[T], n: usize) -> Option<T> {
    if x.is_empty() {
        return None;
    }
    let alpha = t::<T>(2.0) / (tn::<T>(n) + T::one());
    let two = t::<T>(2.0);
    let s = |i: usize| -> T { (x[i] + two * x[i - 1] + two * x[i - 2] + x[i - 3]) / t::<T>(6.0) };
    let mut cc: Vec<T> = Vec::with_capacity(x.len());
    for i in 0..x.len() {
        // six values are buffered at the least (three smoothed values of four inputs each)
        if i + 1 < n.max(6) {
            cc.push(T::zero());
            continue;
        }
        let c1 = cc[i - 1];
        let c2 = cc[i - 2];
        cc.push(
            (T::one() - t::<T>(0.5) * alpha).powi(2) * (s(i) - two * s(i - 1) + s(i - 2)) + two * (T::one() - alpha) * c1
                - (T::one() - alpha).powi(2) * c2,
        );
    }
    cc.last().copied()
}

fn flex_coef<T: Scalar>(n: usize) -> SsCoef<T> {
    let wl = tn::<T>(n);
    let a1 = (t::<T>(-8.88442402435) / wl).exp();
    let b1 = t::<T>(2.0) * a1 * (t::<T>(4.44221201218) / wl).cos();
    let c3 = -(a1 * a1);
    SsCoef { c1: T::one() - b1 - c3, b1, c3 }
}

pub fn trend_flex<T: Scalar>(x: &[T], n: usize) -> Option<T> {
    if x.is_empty() {
        return None;
    }
    let f = two_pole(x, &flex_coef::<T>(n), x[0]);
    let mut ms = T::zero();
    let mut out = T::zero();
    for i in 0..f.len() {
        let w = window(&f[..=i], n);
        let mut d = T::zero();
        for v in w {
            d = d + (f[i] - *v);
        }
        d = d / tn::<T>(n);
        ms = t::<T>(0.04) * d * d + t::<T>(0.96) * ms;
        out = if ms > T::zero() { d / ms.sqrt() } else { T::zero() };
    }
    Some(out)
}

pub fn re_flex<T: Scalar>(x: &[T], n: usize) -> Option<T> {
    if x.is_empty() {
        return None;
    }
    let f = two_pole(x, &flex_coef::<T>(n), x[0]);
    let mut ms = T::zero();
    let mut out = None;
    for i in 0..f.len() {
        let w = window(&f[..=i], n);
        let slope = (w[0] - f[i]) / tn::<T>(n);
        let mut d = T::zero();
        for (j, v) in w.iter().rev().enumerate() {
            d = d + ((f[i] + tn::<T>(j) * slope) - *v);
        }
        d = d / tn::<T>(n);
        ms = t::<T>(0.04) * d * d + t::<T>(0.96) * ms;
        if ms > T::zero() {
            out = Some(d / ms.sqrt());
        }
    }
    out
}

/// reference of the supplied moving average over Echo: Sma(M) or Ema(M)
pub fn ref_ma<T: Scalar>(ma: &Spec, delivered: &[T]) -> Option<T> {
    let m = ma.n;
    if delivered.len() < m || delivered.is_empty() {
        return None;
    }
    match ma.kind {
        Kind::Sma => Some(crate::refs::mean(window(delivered, m))),
        Kind::Ema => Some(crate::refs::ema(delivered, t::<T>(2.0) / (tn::<T>(m) + T::one()))),
        _ => panic!("reference moving average supports Sma and Ema only"),
    }
}

pub fn fisher<T: Scalar>(x: &[T], n: usize, ma: &Spec) -> Option<T> {
    let mut fed: Vec<T> = vec![];
    let mut out: Option<T> = None;
    let half = t::<T>(0.5);
    for i in 0..x.len() {
        let w = window(&x[..=i], n);
        let (lo, hi) = (crate::refs::minv(w), crate::refs::maxv(w));
        if hi == lo {
            out = Some(T::zero());
            continue;
        }
        let v = t::<T>(2.0) * ((x[i] - lo) / (hi - lo) - half);
        fed.push(v);
        let Some(s) = ref_ma(ma, &fed) else { continue };
        let lim = t::<T>(0.99);
        let s = if s > lim {
            lim
        } else if s < -lim {
            -lim
        } else {
            s
        };
        match out {
            None => out = Some(T::zero()),
            Some(prev) => out = Some(half * ((T::one() + s) / (T::one() - s)).ln() + half * prev),
        }
    }
    out
}

pub fn pfe<T: Scalar>(x: &[T], n: usize, ma: &Spec) -> Option<T> {
    let mut fed: Vec<T> = vec![];
    for i in 0..x.len() {
        if i + 1 < n {
            continue;
        }
        let mut s = T::zero();
        for k in 0..n - 2 {
            let d = x[i - k] - x[i - k - 1];
            s = s + (d * d + T::one()).sqrt();
        }
        let d = x[i] - x[i + 1 - n];
        let mut p = (d * d + tn::<T>(n) * tn::<T>(n)).sqrt() / s;
        if x[i] < x[i - 1] {
            p = -p;
        }
        fed.push(p);
    }
    ref_ma(ma, &fed)
}
