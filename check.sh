#!/bin/sh
# usage: check.sh <C01..C18> <quick|thorough>
# Rebuilds the engine (and, through the path dependency, /repo's working tree)
# offline, then runs the check. Exit 0 = held, 1 = violation, 2 = machinery error.
ID="$1"; TIER="${2:-quick}"
cd "$(dirname "$0")/engine" || exit 2
export CARGO_NET_OFFLINE=true
if ! cargo build --offline --profile checked -q 2>../build-checked.log; then
  cat ../build-checked.log; echo "MACHINERY ERROR: engine (checked profile) does not build"; exit 2
fi
if [ "$ID" = "C15" ]; then
  if ! cargo build --offline --release -q 2>../build-release.log; then
    cat ../build-release.log; echo "MACHINERY ERROR: engine (release profile) does not build"; exit 2
  fi
fi
exec ./target/checked/sfmc check "$ID" --tier "$TIER"
